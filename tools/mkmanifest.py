#!/venv/bin/python
"""Regenerate /verif/MANIFEST.json from the table below and validate it.  Run from /verif."""

import json
import os
import sys

HERE = os.path.dirname(os.path.dirname(os.path.abspath(__file__)))
sys.path.insert(0, HERE)

PY = "/venv/bin/python"

# id -> (technique, level text, level note, DESIGN section)
T_HYP = "Hypothesis-generated cases"
CHECKS = {
    "C01": (
        "Hypothesis pair/group generation by common-prefix length + exhaustive enumeration of all 2^w inputs (real anonymizers with 32-w host bits, width-generic base class at widths 4..12) + bulk one-anonymizer runs; oracle: common-prefix-length relation / level-wise bijection",
        "Generated-input search against the algebraic relation cpl(anon(a),anon(b)) == cpl(a,b) over salts, host bits, preserved prefix/network lists and both families; sub-spaces of up to 2^16 addresses are enumerated completely (permutation and every depth checked), the 32/128-bit spaces are sampled at every common-prefix length.",
        "Exploration: absence of violations in the full 32/128-bit space is not established. Trusted: Python ints, ipaddress for parsing CIDRs.",
        "4/C01",
    ),
    "C02": (
        "Hypothesis round trips (integer level with pre-loaded/foreign-construction histories, file level with constructed token lines, CLI in two processes); oracle: inverse relation and a canonicalising expectation built from the generator's own token table",
        "Round-trip oracle on distinct forward/undo instances (cold, pre-loaded by generated request histories, or separate interpreter processes through the real command line), both directions, plus file-level expectation computed by the harness from the tokens it generated (masks/preserved as written, mask-shaped images stay).",
        "Exploration over generated inputs; the forward and undo passes always get identical salt and options.",
        "4/C02",
    ),
    "C03": (
        "Hypothesis rule-based state machine (anonymize/undo/line/dump/permuted replay with arguments fed back from earlier outputs) against a fresh-instance reference; bulk long histories; foreign-construction histories; file-set partition/order metamorphic check",
        "Model-based generation of request histories on one anonymizer; after every request the answer must equal that of a fresh anonymizer with the same salt/options (no re-implementation of the hash), whole histories replayed permuted, files together vs separately vs reverse order.",
        "Exploration; histories up to 60 steps plus bulk runs of up to 14000 addresses. The reference is netconan's own class with a cold cache.",
        "4/C03",
    ),
    "C04": (
        "Hypothesis addresses constructed inside/at the edge of/just outside preserved prefixes, both families for host bits; oracle: integer membership and bit-suffix predicates; exhaustive grid of default-prefix edge addresses x salts",
        "Validity predicates over generated (configuration, address): membership in every preserved prefix kept both ways (default list written out in the harness), low B bits unchanged, leading bits independent of the suffix.",
        "Exploration over generated configurations and addresses; edge grid enumerated completely for the default list.",
        "4/C04",
    ),
    "C05": (
        "exhaustive enumeration of the 64 masks and their 2048 one-bit perturbations + Hypothesis text lines and boundary-biased inside/outside addresses; oracle: reference mask predicate, byte-identical preserved tokens, inverse-image membership",
        "Mask predicate compared on the complete set of masks and one-bit neighbours; preserved/mask tokens must come out as written from generated lines (after an optional earlier anonymizer with other options saw the same tokens); collision freedom via inverse images of preserved addresses and images of boundary-biased outside addresses.",
        "Exploration outside the exhaustive mask set. Token boundaries themselves are C06's subject.",
        "4/C05",
    ),
    "C06": (
        "exhaustive enumeration of short strings over a boundary alphabet (contexts x address/near-miss cores, atom strings) + Hypothesis constructed lines; oracle: independent token scanner (no regular expression shared with netconan) + fresh-anonymizer image",
        "Differential against an independent scanner that decides, per maximal token, whether it is a standalone valid address and what its canonical replacement text is; both directions (every address replaced as a whole, nothing else changed), through anonymize_ip_addr and through FileAnonymizer.anonymize_io.",
        "Exploration + complete enumeration of the listed short-string spaces. Mixed super-tokens where the statement and the token rule disagree are skipped and counted.",
        "4/C06",
    ),
    "C07": (
        "Hypothesis-generated runs of recognised secret lines instantiated twice with different secret values (metamorphic equality of output and INFO+ log) + positional/survival oracle + standalone $1$/$9$ tokens among arbitrary keywords",
        "Metamorphic relation: two runs that differ only in secret values (same format classes, same equality pattern) must give byte-identical output and identical INFO+ log records; positional oracle: the secret's slot holds something else, nothing of the secret survives.",
        "Exploration over the harness's table of recognised line forms (read from the pattern groups and the test templates). Known findings listed in known_findings.txt are excluded by key and counted.",
        "4/C07",
    ),
    "C08": (
        "Hypothesis histories of secret-bearing lines with a small secret pool and $9$ re-encodings (harness encoder); model: dict secret-identity -> pseudonym-identity checked in both directions after every line",
        "Model-based check of one run: equal secrets (after independent $9$ decoding) must map to equal pseudonyms and different secrets to different pseudonyms whatever the line form, quoting or interleaving.",
        "Exploration. Pseudonym identity of a $9$ replacement is its plaintext per the harness's own decoder.",
        "4/C08",
    ),
    "C09": (
        "Hypothesis single-secret lines over every format class/parameter + exhaustive class x parameter grid; oracle: independent decoders (own type-7 and $9$ codecs, passlib identify) and exact context preservation",
        "Validity predicate on each replacement decided by decoders that do not share code with netconan; output must equal the input with exactly the secret span replaced.",
        "Exploration; passlib is in the trusted base (as in the property).",
        "4/C09",
    ),
    "C10": (
        "Hypothesis word lists (overlapping, mixed case) x lines x reserved sets, repeated in interpreter processes with different PYTHONHASHSEED; oracle: case-insensitive survival scan + exact expected output for non-overlapping lists",
        "Survival scan over the output for every listed word (only allowed inside tokens equal to a reserved word), reserved tokens untouched, pseudonym a function of (salt, matched text) across lines/instances/lists/hash seeds.",
        "Exploration over the word alphabet stated in the property.",
        "4/C10",
    ),
    "C11": (
        "Hypothesis AS-number lists weighted to block boundaries x lines with standalone/embedded occurrences x salts; oracle: independent digit-run scanner + block predicate + consistency across instances",
        "Independent scanner of maximal digit runs: listed runs are replaced by a number of the same block that depends on (salt, number) only; every other character unchanged.",
        "Exploration; boundary numbers x many salts enumerated as a grid.",
        "4/C11",
    ),
    "C12": (
        "Hypothesis texts with unusual white space and terminators x all 16 feature subsets; oracles: line structure, per-token conservation, prefix-closure/permutation/insertion metamorphic relations",
        "Structure and locality relations on generated multi-line texts built from benign vocabulary with sensitive items at known positions.",
        "Exploration.",
        "4/C12",
    ),
    "C13": (
        "batch differential across interpreter processes with PYTHONHASHSEED 0..7/random + Hypothesis state machine of foreign anonymizer constructions with a fresh-process reference + no-salt reproduction",
        "Same (salt, options, input) must give byte-identical output across repetitions, processes/hash seeds and histories of earlier anonymizers in the process.",
        "Exploration; time dependence is only observable as a difference between runs.",
        "4/C13",
    ),
    "C14": (
        "Hypothesis Unicode lines + form-mutation generator (backslashes, malformed hashes, near-IPv6, long bracket runs) + token soup, all feature subsets and salts; atheris coverage-guided campaign in the thorough tier; oracle: no exception, one line out per line in, no truncated file",
        "Totality: any exception escaping anonymize_io / any missing output line is a violation, keyed by exception type and innermost netconan frame.",
        "Exploration; lines up to several thousand characters.",
        "4/C14",
    ),
    "C15": (
        "Hypothesis multi-line inputs x all 16 feature subsets x {anonymize, undo}; oracle: differential against the chain of single-feature anonymizers in the fixed order",
        "Differential: multi-feature output == secrets -> IPv6 -> IPv4 -> words -> AS numbers applied by single-feature anonymizers with the same salt/options.",
        "Exploration.",
        "4/C15",
    ),
    "C16": (
        "Hypothesis directory trees with injected faults (undecodable bytes at generated offsets, output path occupied) materialised in scratch directories; oracles: mirror-set equality, input bytes/mtimes, four entry points agree, fault isolation differential",
        "File-system level generated-input search with fault injection at every position in walk order.",
        "Exploration; fault kinds limited to the two the property names.",
        "4/C16",
    ),
    "C17": (
        "Hypothesis multi-file inputs with both families, all spellings, masks and preserved addresses x host-bit counts; oracle: dump parsed and compared with positional (input token, output token) pairs and with a fresh anonymizer",
        "The dump must list every replaced address exactly once with the replacement used, no value twice on either side, each pair agreeing with the mapping function.",
        "Exploration.",
        "4/C17",
    ),
    "C18": (
        "exhaustive enumeration (65 salts x 256 code points x 7 table positions) + Hypothesis round-trip, differential against an independent $9$ decoder, and mutation-generated malformed strings",
        "Generated-input search with four oracles: round trip through netconan's own decoder, structural well-formedness of the encoder's output, agreement of juniper_decrypt with an independent decoder on every well-formed string, ValueError-only on malformed strings. The single-character grid is enumerated completely; longer plaintexts, arbitrary salts and malformed strings are sampled.",
        "Trusted: the harness's own $9$ codec (vf/ref/juniper9.py, known-answer tested against Crypt::Juniper vectors). Absence of violations outside the enumerated grid is not established.",
        "4/C18",
    ),
    "C19": (
        "Hypothesis argument vectors and config files around generated input trees; oracles: rejection-before-write, placement equivalence (CLI/config/both), defaults, --preserve-private-addresses equivalence, CLI == library differential",
        "Metamorphic and differential relations over generated option placements, run in-process through netconan.netconan.main and (thorough) through subprocesses.",
        "Exploration; option values restricted to what the config-file syntax can express literally.",
        "4/C19",
    ),
}

NOT_YET = "check not built yet (work in progress); see DESIGN.md section 4 for the planned design"


def main():
    props = [json.loads(l)["id"] for l in open(os.path.join(HERE, "properties.jsonl"))]
    checks = []
    built = {pid for pid in CHECKS if os.path.exists(os.path.join(HERE, "vf", "props", pid.lower() + ".py"))}
    for pid in props:
        if pid not in built:
            continue
        tech, text, note, ref = CHECKS[pid]
        checks.append(
            {
                "property_id": pid,
                "quick_cmd": "%s -m vf.run %s --tier quick" % (PY, pid),
                "thorough_cmd": "%s -m vf.run %s --tier thorough" % (PY, pid),
                "evidence_file": "/verif/evidence/%s.json" % pid,
                "replay_cmd_template": "%s -m vf.run %s --replay {path}" % (PY, pid),
                "engine": "vf",
                "level_claimed": {"category": "exploration", "text": text, "design_ref": "DESIGN.md " + ref},
                "level_note": note,
                "technique": tech,
            }
        )
    man = {
        "version": 1,
        "setup_cmd": "/bin/sh /verif/tools/setup.sh",
        "hooks": {
            "guard": "NETCONAN_VERIF",
            "enable": "no source hooks: every observation point is a public function, an output file or a log record; "
            "checks import netconan from /repo's working tree",
            "baseline_off_cmd": "cd /repo && /venv/bin/python -m pytest -q -p no:cacheprovider --timeout=900",
            "source_commits": [],
            "add_only": True,
        },
        "engines": [
            {
                "name": "vf",
                "path": "/verif/vf",
                "serves_properties": [c["property_id"] for c in checks],
                "kind_free_text": "Hypothesis 6.168 strategies / rule-based state machines, exhaustive enumerators and "
                "atheris fuzz targets, run in up to 16 worker processes by `python -m vf.run <ID> --tier quick|thorough`",
            }
        ],
        "checks": checks,
        "notes": "Property-based testing and fuzzing only. Known findings and repaired defects: /verif/known_findings.txt; "
        "committed replay witnesses: /verif/replays/<ID>/; seeded breaking changes used to test the checks: /verif/seeded/.",
        "not_applicable": [{"property_id": p, "reason": NOT_YET} for p in props if p not in built],
    }
    path = os.path.join(HERE, "MANIFEST.json")
    with open(path, "w") as fh:
        json.dump(man, fh, indent=1)
        fh.write("\n")
    try:
        import jsonschema

        jsonschema.validate(man, json.load(open("/root/.vp/MANIFEST.schema.json")))
        print("MANIFEST.json valid (%d checks, %d not_applicable)" % (len(checks), len(man["not_applicable"])))
    except ImportError:
        print("MANIFEST.json written (jsonschema not available for validation)")


if __name__ == "__main__":
    main()
