#!/venv/bin/python
"""Regenerate /verif/MANIFEST.json from the table below and validate it.  Run from /verif."""

import json
import os
import sys

HERE = os.path.dirname(os.path.dirname(os.path.abspath(__file__)))
sys.path.insert(0, HERE)

PY = "/venv/bin/python"

# id -> (technique, level text, level note, DESIGN section)
CHECKS = {
    "C18": (
        "exhaustive enumeration (65 salts x 256 code points x 7 table positions) + Hypothesis round-trip, "
        "differential against an independent $9$ decoder, and mutation-generated malformed strings",
        "Generated-input search with four oracles: round trip through netconan's own decoder, structural "
        "well-formedness of the encoder's output, agreement of juniper_decrypt with an independent decoder on "
        "every well-formed string, ValueError-only on malformed strings. The single-character grid is enumerated "
        "completely; longer plaintexts, arbitrary salts and malformed strings are sampled.",
        "Trusted: the harness's own $9$ codec (vf/ref/juniper9.py, known-answer tested against Crypt::Juniper vectors). "
        "Absence of violations outside the enumerated grid is not established.",
        "4/C18",
    ),
}

NOT_YET = "check not built yet (work in progress); see DESIGN.md section 4 for the planned design"


def main():
    props = [json.loads(l)["id"] for l in open(os.path.join(HERE, "properties.jsonl"))]
    checks = []
    for pid in props:
        if pid not in CHECKS:
            continue
        tech, text, note, ref = CHECKS[pid]
        checks.append(
            {
                "property_id": pid,
                "quick_cmd": "%s -m vf.run %s --tier quick" % (PY, pid),
                "thorough_cmd": "%s -m vf.run %s --tier thorough" % (PY, pid),
                "evidence_file": "/verif/evidence/%s.json" % pid,
                "replay_cmd_template": "%s -m vf.run %s --replay {path}" % (PY, pid),
                "engine": "vf",
                "level_claimed": {"category": "exploration", "text": text, "design_ref": "DESIGN.md " + ref},
                "level_note": note,
                "technique": tech,
            }
        )
    man = {
        "version": 1,
        "setup_cmd": "/bin/sh /verif/tools/setup.sh",
        "hooks": {
            "guard": "NETCONAN_VERIF",
            "enable": "no source hooks: every observation point is a public function, an output file or a log record; "
            "checks import netconan from /repo's working tree",
            "baseline_off_cmd": "cd /repo && /venv/bin/python -m pytest -q -p no:cacheprovider --timeout=900",
            "source_commits": [],
            "add_only": True,
        },
        "engines": [
            {
                "name": "vf",
                "path": "/verif/vf",
                "serves_properties": [c["property_id"] for c in checks],
                "kind_free_text": "Hypothesis 6.168 strategies / rule-based state machines, exhaustive enumerators and "
                "atheris fuzz targets, run in up to 16 worker processes by `python -m vf.run <ID> --tier quick|thorough`",
            }
        ],
        "checks": checks,
        "notes": "Property-based testing and fuzzing only. Known findings and repaired defects: /verif/known_findings.txt; "
        "committed replay witnesses: /verif/replays/<ID>/; seeded breaking changes used to test the checks: /verif/seeded/.",
        "not_applicable": [{"property_id": p, "reason": NOT_YET} for p in props if p not in CHECKS],
    }
    path = os.path.join(HERE, "MANIFEST.json")
    with open(path, "w") as fh:
        json.dump(man, fh, indent=1)
        fh.write("\n")
    try:
        import jsonschema

        jsonschema.validate(man, json.load(open("/root/.vp/MANIFEST.schema.json")))
        print("MANIFEST.json valid (%d checks, %d not_applicable)" % (len(checks), len(man["not_applicable"])))
    except ImportError:
        print("MANIFEST.json written (jsonschema not available for validation)")


if __name__ == "__main__":
    main()
