#!/bin/sh
# Offline setup: everything comes from files on disk.  netconan itself is pure Python and is
# imported from /repo's working tree by every check, so there is nothing to build.
set -e
cd /verif
if ! /venv/bin/python -c "import hypothesis" 2>/dev/null; then
    /venv/bin/pip install --no-index --find-links /opt/veriftools/wheels hypothesis
fi
# atheris is only used by the thorough tier of C14/C18; its absence is not an error.
if ! PYTHONPATH=/verif/.deps /venv/bin/python -c "import atheris" 2>/dev/null; then
    /venv/bin/pip install --no-index --find-links /opt/veriftools/wheels --target /verif/.deps atheris >/dev/null 2>&1 || echo "setup: atheris not installed (fuzz supplement will be skipped)"
fi
/venv/bin/python -c "import hypothesis, passlib, bidict; print('setup ok: hypothesis', hypothesis.__version__)"
