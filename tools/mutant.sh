#!/bin/sh
# usage: tools/mutant.sh <patch.diff> <ID> [<ID> ...]   [TIER=quick]
# Applies the patch to a scratch worktree of /repo's HEAD (outside /repo and /verif), runs the given
# checks against it through VERIF_REPO, prints their last lines, removes the worktree.
patch=$(readlink -f "$1"); shift
wt=$(mktemp -d /tmp/mw.XXXXXX)
git -C /repo worktree add -q --detach "$wt" HEAD || exit 2
if ! git -C "$wt" apply "$patch"; then echo "PATCH DOES NOT APPLY"; git -C /repo worktree remove --force "$wt"; exit 2; fi
cd /verif
for id in "$@"; do
  VERIF_REPO="$wt" /venv/bin/python -m vf.run "$id" --tier "${TIER:-quick}" 2>&1 | grep -E "violated|VIOLATION|HARNESS|evaluations" | cut -c1-300 | head -${LINES_MAX:-8}
done
git -C /repo worktree remove --force "$wt"
rm -rf "/tmp/vf-scratch-out/$(basename $wt)"
