#!/venv/bin/python
"""Confirm and file seeded property-breaking changes, and run checks against them.

  tools/seeded.py confirm <src dir with patch.diff demo.py notes.md> <property id> <name>
      - scratch worktree of /repo HEAD (under /tmp), demo must PASS on it; apply patch; the full
        test-suite must still pass; demo must FAIL.  On success the files are copied to
        /verif/seeded/<id>-<name>/ with meta.json.  The worktree is removed.
  tools/seeded.py run <seeded dir> [<check id> ...] [--tier quick]
      - applies the patch in a scratch worktree and runs the checks against it (VERIF_REPO);
        records which checks reported a violation in meta.json ("detected_by").
"""

import json
import os
import re
import shutil
import subprocess
import sys
import tempfile

VERIF = os.path.dirname(os.path.dirname(os.path.abspath(__file__)))
PY = "/venv/bin/python"


def sh(cmd, cwd=None, env=None, timeout=3600):
    p = subprocess.run(cmd, cwd=cwd, env=env, shell=isinstance(cmd, str), capture_output=True, text=True, timeout=timeout)
    return p.returncode, p.stdout + p.stderr


def worktree():
    """A scratch copy of /repo's HEAD under /tmp (an export, not a linked worktree: nothing is shared
    with /repo's git metadata, so any number of these can be made and removed concurrently)."""
    wt = tempfile.mkdtemp(prefix="sw.", dir="/tmp")
    rc, out = sh("git -C /repo archive HEAD | tar -x -C %s" % wt)
    if rc or not os.path.isdir(os.path.join(wt, "netconan")):
        raise SystemExit("cannot export /repo HEAD: " + out)
    return wt


def rm_worktree(wt):
    shutil.rmtree(wt, ignore_errors=True)


def confirm(src, pid, name):
    wt = worktree()
    try:
        env = dict(os.environ, PYTHONPATH=wt, PYTHONDONTWRITEBYTECODE="1")
        demo = os.path.join(src, "demo.py")
        rc0, out0 = sh([PY, demo], cwd=src, env=env)
        rca, outa = sh(["git", "-C", wt, "apply", os.path.join(src, "patch.diff")])
        if rca:
            print("PATCH DOES NOT APPLY:", outa)
            return 1
        rct, outt = sh([PY, "-m", "pytest", "-q", "-p", "no:cacheprovider", "-x"], cwd=wt, env=dict(os.environ, PYTHONDONTWRITEBYTECODE="1"))
        m = re.search(r"(\d+) passed", outt)
        passed = int(m.group(1)) if m else 0
        rc1, out1 = sh([PY, demo], cwd=src, env=env)
        ok = rc0 == 0 and rc1 != 0 and rct == 0 and passed == 2409
        print("demo on unchanged tree: exit %d | suite with change: exit %d, %d passed | demo with change: exit %d  => %s" % (rc0, rct, passed, rc1, "CONFIRMED" if ok else "REJECTED"))
        if not ok:
            print(out0[-500:], outt[-500:], out1[-500:])
            return 1
        dst = os.path.join(VERIF, "seeded", "%s-%s" % (pid, name))
        os.makedirs(dst, exist_ok=True)
        for f in ("patch.diff", "demo.py", "notes.md"):
            shutil.copy(os.path.join(src, f), os.path.join(dst, f))
        head = sh(["git", "-C", "/repo", "rev-parse", "--short", "HEAD"])[1].strip()
        meta = {
            "property": pid,
            "origin": "independent sub-agent given only the property text and a scratch worktree",
            "base_commit": head,
            "needs_to_manifest": open(os.path.join(src, "notes.md")).read().strip(),
            "confirmed": {
                "demo_on_unchanged_tree": "exit 0",
                "test_suite_with_change": "%d passed (exit %d)" % (passed, rct),
                "demo_with_change": "exit %d: %s" % (rc1, out1.strip().splitlines()[-1][:300] if out1.strip() else ""),
                "commands": [
                    "git -C /repo archive HEAD | tar -x -C <scratch>",
                    "PYTHONPATH=<scratch> /venv/bin/python demo.py",
                    "git -C <scratch> apply patch.diff",
                    "cd <scratch> && /venv/bin/python -m pytest -q -p no:cacheprovider",
                    "PYTHONPATH=<scratch> /venv/bin/python demo.py",
                    "rm -rf <scratch>",
                ],
            },
            "detected_by": {},
        }
        json.dump(meta, open(os.path.join(dst, "meta.json"), "w"), indent=1)
        print("filed as", dst)
        return 0
    finally:
        rm_worktree(wt)


def run(d, ids, tier):
    d = os.path.abspath(d)
    meta_path = os.path.join(d, "meta.json")
    meta = json.load(open(meta_path))
    if not ids:
        ids = [meta["property"]]
    wt = worktree()
    try:
        rca, outa = sh(["git", "-C", wt, "apply", os.path.join(d, "patch.diff")])
        if rca:
            print("PATCH DOES NOT APPLY on current HEAD:", outa)
            return 2
        for pid in ids:
            env = dict(os.environ, VERIF_REPO=wt)
            rc, out = sh([PY, "-m", "vf.run", pid, "--tier", tier], cwd=VERIF, env=env)
            keys = re.findall(r"violated: (\S+) \[(\S+)\]", out)
            last = out.strip().splitlines()[-1] if out.strip() else ""
            print("%s %s on %s: exit %d  %s  %s" % (pid, tier, os.path.basename(d), rc, keys[:4], last[-60:]))
            if rc == 2:
                print(out[-600:])
            meta.setdefault("detected_by", {})["%s/%s" % (pid, tier)] = {
                "exit": rc,
                "violations": ["%s [%s]" % k for k in keys][:6],
            }
        json.dump(meta, open(meta_path, "w"), indent=1)
    finally:
        rm_worktree(wt)
        shutil.rmtree(os.path.join("/tmp", "vf-scratch-out", os.path.basename(wt)), ignore_errors=True)
    return 0


def matrix(tier, jobs=3):
    """Run every seeded change against its own property's check (VERIF_SEED from the environment);
    prints one line each and a summary.  Does not touch meta.json."""
    import glob
    from concurrent.futures import ThreadPoolExecutor

    dirs = sorted(glob.glob(os.path.join(VERIF, "seeded", "C*")))

    def one(d):
        meta = json.load(open(os.path.join(d, "meta.json")))
        wt = worktree()
        try:
            rca, outa = sh(["git", "-C", wt, "apply", os.path.join(d, "patch.diff")])
            if rca:
                return os.path.basename(d), "PATCH-DOES-NOT-APPLY", []
            rc, out = sh([PY, "-m", "vf.run", meta["property"], "--tier", tier], cwd=VERIF, env=dict(os.environ, VERIF_REPO=wt))
            keys = re.findall(r"violated: (\S+) \[(\S+)\]", out)
            if os.environ.get("SEEDED_RECORD"):
                meta.setdefault("detected_by", {})["%s/%s" % (meta["property"], tier)] = {"exit": rc, "seed": int(os.environ.get("VERIF_SEED", "1")), "violations": ["%s [%s]" % k for k in keys][:6]}
                json.dump(meta, open(os.path.join(d, "meta.json"), "w"), indent=1)
            return os.path.basename(d), rc, [k[0] for k in keys][:3]
        finally:
            rm_worktree(wt)
            shutil.rmtree(os.path.join("/tmp", "vf-scratch-out", os.path.basename(wt)), ignore_errors=True)

    missed = []
    with ThreadPoolExecutor(jobs) as ex:
        for name, rc, keys in ex.map(one, dirs):
            print("%-8s exit=%s %s" % (name, rc, keys), flush=True)
            if rc != 1:
                missed.append(name)
    print("seed=%s tier=%s: %d seeded changes, %d not detected: %s" % (os.environ.get("VERIF_SEED", "1"), tier, len(dirs), len(missed), missed))


if __name__ == "__main__":
    a = sys.argv[1:]
    if a and a[0] == "matrix":
        sys.exit(matrix(a[1] if len(a) > 1 else "quick", int(a[2]) if len(a) > 2 else 3))
    if a and a[0] == "confirm":
        sys.exit(confirm(os.path.abspath(a[1]), a[2], a[3]))
    if a and a[0] == "run":
        tier = "quick"
        if "--tier" in a:
            i = a.index("--tier")
            tier = a[i + 1]
            del a[i : i + 2]
        sys.exit(run(a[1], a[2:], tier))
    print(__doc__)
