"""C08 - secret pseudonyms are consistent and collision-free within a run."""

from hypothesis import strategies as st

from .. import core
from ..core import Finding, Task, guarded
from ..gen import secrets as S
from ..ref import juniper9 as J

ID = "C08"
RULE = (
    "Hypothesis histories of 2-30 lines through ONE FileAnonymizer(anon_pwd): a pool of 2-6 secrets of generated format "
    "classes (so repeats are frequent); every occurrence draws its own line form, optional parts, indentation and "
    "enclosing style (\"s\", 's', \\\"s\\\", [s], {s}, s; s,); $9$ pool members are families - one plaintext encoded under "
    "several of the 65 salt characters with arbitrary filler (harness encoder) and also written in clear; benign and address "
    "lines in between. Model: dict secret-identity -> pseudonym-identity (identity of a $9$ string = its plaintext per the "
    "harness's decoder), checked after every line; dir: the same histories split over the files of one "
    "anonymize_files run, with undecodable files in between; model checked in both directions (same secret => same pseudonym, different secrets => "
    "different pseudonyms). Non-trivial = a secret recurs after another new secret with a different form or enclosing, or a "
    "$9$ family with >= 2 encodings; distinct by history."
)
ASSUMPTIONS = [
    "replacements are read by position: the harness built every line, so the text before and after each slot is known",
    "identity of a $9$ string = plaintext decoded by vf/ref/juniper9.py; of any other secret = the string itself",
]


def _lines(case):
    out = []
    for ln in case["lines"]:
        if "text" in ln:
            out.append((ln["text"], None, None))
            continue
        form = S.FORM_BY_ID[ln["form"]]
        vals = ln["values"] if "values" in ln else [ln["value"]]
        line, spans = S.render(form, ln["head"], ln["trail"], vals, tuple(ln["enc"]), ln["lead"], "")
        out.append((line, spans, ln))
    return out


def check_history(case, ev):
    from netconan.anonymize_files import FileAnonymizer

    lines = _lines(case)
    fa, exc = guarded(lambda: FileAnonymizer(anon_pwd=True, anon_ip=False, salt=case["salt"]))
    if exc is not None:
        return core.exc_finding(exc, case, "ctor/")
    cuts = sorted(set(c for c in case.get("calls", []) if 0 < c < len(lines)))
    outs = []
    for a, b in zip([0] + cuts, cuts + [len(lines)]):
        # several anonymize_io calls on ONE FileAnonymizer (library use): still one run
        out, exc = guarded(core.run_io, fa, "".join(l[0] + "\n" for l in lines[a:b]), bool(case.get("nonl")))
        if exc is not None:
            return core.exc_finding(exc, case, "run/")
        outs += out.split("\n")[:-1]
    if len(outs) != len(lines):
        return Finding("history/line-count-changed", "%d in, %d out" % (len(lines), len(outs)), case)
    return _model_check(case, lines, outs, ev, ["several-anonymize_io-calls"] if cuts else [])


def check_dir(case, ev):
    """The same history split over the files of a directory (one anonymize_files run), with files
    that cannot be processed in between: {salt, lines, cuts: [indices], bad: [positions]}"""
    import os
    import shutil
    import tempfile

    from netconan.anonymize_files import anonymize_files

    lines = _lines(case)
    cuts = sorted(set(c for c in case["cuts"] if 0 < c < len(lines)))
    chunks = [lines[a:b] for a, b in zip([0] + cuts, cuts + [len(lines)])]
    d = tempfile.mkdtemp(prefix="vf-c08-")
    try:
        os.makedirs(os.path.join(d, "in"))
        names = []
        k = 0
        for ci, ch in enumerate(chunks):
            if ci in case["bad"]:
                with open(os.path.join(d, "in", "f%02d_bad.cfg" % k), "wb") as fh:
                    fh.write(b"password zzTop\n\xff\xfe broken \x80\n")
                k += 1
            name = "f%02d.cfg" % k
            k += 1
            names.append(name)
            with open(os.path.join(d, "in", name), "w", encoding="utf-8", newline="") as fh:
                fh.write("".join(l[0] + "\n" for l in ch))
        _, exc = guarded(anonymize_files, os.path.join(d, "in"), os.path.join(d, "out"), True, False, salt=case["salt"])
        if exc is not None:
            return core.exc_finding(exc, case, "run/")
        outs = []
        for name, ch in zip(names, chunks):
            p = os.path.join(d, "out", name)
            if not os.path.exists(p):
                return Finding("dir/output-missing", name, case)
            o = open(p, encoding="utf-8", newline="").read().split("\n")[:-1]
            if len(o) != len(ch):
                return Finding("dir/line-count-changed", "%s: %d in, %d out" % (name, len(ch), len(o)), case)
            outs += o
    finally:
        shutil.rmtree(d, ignore_errors=True)
    return _model_check(case, lines, outs, ev, ["files%d" % len(chunks)] + (["failing-file-between"] if case["bad"] else []))


def _model_check(case, lines, outs, ev, extra_cls):
    model = {}  # secret identity -> (pseudonym identity, first line)
    inverse = {}
    seen_styles = {}
    nt = False
    cls = ["lines%d" % (len(lines) // 5 * 5)] + extra_cls
    f = None
    new_since = {}
    for i, ((line, spans, ln), o) in enumerate(zip(lines, outs)):
        if spans is None:
            if o != line and f is None and not line.strip().startswith("ip "):
                f = Finding("history/benign-line-changed", "%r -> %r" % (line, o), case)
            continue
        shift = len(line) - len(line.lstrip())
        rs = S.extract_replacements(line.strip(), [(a - shift, b - shift) for a, b in spans], o.strip())
        vals = ln["values"] if "values" in ln else [ln["value"]]
        clss = ln["clss"] if "clss" in ln else [ln["cls"]]
        if len(vals) > 1:
            cls.append("two-secrets-on-one-line")
        if rs is None or any((r == v and not _PSEUDO.match(v)) or not r for r, v in zip(rs, vals)):
            if f is None:
                f = Finding("history/secret-not-replaced:%s:%s" % (ln["form"], "+".join(clss)), "%r -> %r" % (line, o), case)
            continue
        for slot in range(len(vals)):
            f = _one(case, lines, outs, i, line, o, ln, vals[slot], clss[slot], rs[slot], model, inverse, seen_styles, new_since, cls, f)
            if seen_styles.pop("__nt__", None):
                nt = True
    ev.case(case, nt, cls)
    return f


def _one(case, lines, outs, i, line, o, ln, v, c, r, model, inverse, seen_styles, new_since, cls, f):
    nt = False
    cls.append("class-" + c)
    if True:
        if c == "j9":
            try:
                sid = J.decode(v)
            except ValueError:
                sid = v  # a $9$-shaped string the decoder refuses is a secret of its own
            try:
                pid = J.decode(r)
            except ValueError:
                if f is None:
                    f = Finding("history/j9-replacement-not-decodable", "%r -> %r" % (line, o), case)
                return f
        else:
            sid, pid = v, r
            if c == "text" and not _PSEUDO.match(r) and f is None:
                # the replacement of a text secret is the bare pseudonym: nothing of the secret next to it
                return Finding("history/text-secret-only-partly-replaced", "%r -> %r: the secret %r became %r" % (line, o, v, r), case)
        style = (ln["form"], tuple(ln["enc"]), c, v if c == "j9" else None)
        if sid in model:
            if style != seen_styles[sid] and new_since.get(sid):
                nt = True
            if c == "j9" and seen_styles[sid][2] == "j9" and seen_styles[sid][3] != v:
                nt = True
                cls.append("j9-other-encoding")
            if c != seen_styles[sid][2]:
                cls.append("j9-vs-clear")
            if model[sid][0] != pid and f is None:
                a = lines[model[sid][1]][0]
                f = Finding(
                    "history/same-secret-different-pseudonym:%s" % ("j9-family" if c == "j9" or seen_styles[sid][2] == "j9" else c),
                    "line %d %r -> %r but line %d %r -> %r (same secret)" % (model[sid][1], a, outs[model[sid][1]], i, line, o),
                    case,
                )
        else:
            for k in new_since:
                new_since[k] = True
            new_since[sid] = False
            if pid in inverse and inverse[pid] != sid and f is None:
                j = model[inverse[pid]][1]
                f = Finding(
                    "history/different-secrets-same-pseudonym:%s" % c,
                    "line %d %r -> %r and line %d %r -> %r (different secrets)" % (j, lines[j][0], outs[j], i, line, o),
                    case,
                )
            model[sid] = (pid, i)
            inverse.setdefault(pid, sid)
            seen_styles[sid] = style
    if nt:
        seen_styles["__nt__"] = True
    return f


REPLAY = {"history": check_history, "dir": check_dir}

import re as _re

_PSEUDO = _re.compile(r"^netconanRemoved[0-9]+$")  # a secret spelled like a pseudonym may be "replaced" by itself
_FORMS1 = [f for f in S.POS_FORMS if f.slots == 1 and "exact" not in f.text_kw]
_FORMS2 = [f for f in S.POS_FORMS if f.slots == 2]


@st.composite
def _case(draw, max_lines=30):
    pool = []
    big = draw(st.integers(0, 5)) == 0
    for _ in range(draw(st.integers(12, 26)) if big else draw(st.integers(2, 6))):
        c = draw(st.sampled_from(S.CLASSES if not big else ["hex", "hex", "text", "numeric", "type7"]))
        if c == "j9":
            plain = draw(st.one_of(S.text_value(max_size=10, alphabet_mid=S.TEXT_END), S.numeric_value(), S.hex_value()))
            pool.append({"cls": "j9", "plain": plain})
            if draw(st.integers(0, 5)) == 0:
                # a $9$-shaped secret the decoder refuses: a secret of its own, followed by others in the run
                pool.append({"cls": "j9", "value": draw(S.j9_value(damaged=True))})
            if draw(st.integers(0, 4)) == 0:
                # a $9$ plaintext with a Latin-1 character, and the different secret whose character is 128
                # lower (both only ever written as $9$ strings: clear non-ASCII secrets are outside the domain)
                k = draw(st.integers(0, len(plain)))
                ch = draw(st.sampled_from([x for x in range(0xA1, 0xFF) if chr(x - 128).isalnum()]))  # (the twin stays free of quote / terminator characters)
                pool[-1] = {"cls": "j9", "plain": plain[:k] + chr(ch) + plain[k:]}
                twin = plain[:k] + chr(ch - 128) + plain[k:]
                if draw(st.booleans()) and twin not in core.builtin_reserved():  # ('25' + 'x' is the reserved word 'x25')
                    pool.append({"cls": "j9", "plain": twin})
        else:
            v = draw(S.value_of(c))
            if pool and c in ("hex", "type7", "text") and draw(st.integers(0, 5)) == 0:
                same = [p["value"] for p in pool if p.get("cls") == c]
                if same:
                    sw = draw(st.sampled_from(same)).swapcase()
                    if sw not in core.builtin_reserved():  # (a reserved word is left alone by design: C10)
                        v = sw
            if c == "text" and draw(st.integers(0, 7)) == 0:
                v = "netconanRemoved%d" % draw(st.integers(0, 6))  # a secret that looks like a pseudonym
            if c == "text" and draw(st.integers(0, 7)) == 0:
                same = [p["value"] for p in pool if p.get("cls") == "text"]
                if same:
                    base = draw(st.sampled_from(same)).strip("\\")
                    v = draw(st.sampled_from(["\\" + base, base + "\\", base + "{", base + "[", "]" + base, "}" + base]))  # (brackets on the "wrong" side are part of the secret)
            pool.append({"cls": c, "value": v})
    lines = []
    for _ in range(draw(st.integers(2, max_lines)) if not big else draw(st.integers(len(pool), len(pool) + 12))):
        if draw(st.integers(0, 5)) == 0:
            lines.append({"text": draw(st.sampled_from(["interface Gi0/1", " description uplink", "!", "ip address 10.1.2.3 255.255.255.0", "", "router bgp 65001", " shutdown"]))})
            continue
        p = draw(st.sampled_from(pool)) if not big or len(lines) >= len(pool) else pool[len(lines)]
        if p["cls"] == "j9" and "plain" in p:
            if draw(st.integers(0, 3)) == 0 and p["plain"].isascii():
                v = p["plain"]
                c = sorted(S.classify(v) - {"hex"} or {"hex"})[0] if S.classify(v) != {"text"} else "text"
                c = "numeric" if v.isdigit() else ("hex" if S.classify(v) == {"hex"} else ("type7" if "type7" in S.classify(v) else "text"))
            else:
                v = draw(S.j9_value(plain=p["plain"], damaged=False))
                c = "j9"
        else:
            v, c = p["value"], p["cls"]
        if draw(st.integers(0, 6)) == 0:
            # two different pool members on one line (forms with two secret slots)
            p2 = draw(st.sampled_from(pool))
            v2 = draw(S.j9_value(plain=p2["plain"], damaged=False)) if p2["cls"] == "j9" and "plain" in p2 else p2["value"]
            form = draw(st.sampled_from(_FORMS2))
            c2 = p2["cls"]
            if "exact" in form.text_kw:
                # forms with their own value syntax (AWS keys: 32 characters): two keys, sometimes the same one
                v = draw(S.text_value(**form.text_kw))
                v2 = v if draw(st.integers(0, 3)) == 0 else draw(S.text_value(**form.text_kw))
                c = c2 = "text"
            elif c not in form.classes or c2 not in form.classes or "\\" in v + v2:
                form = draw(st.sampled_from([f for f in _FORMS2 if len(f.classes) == len(S.CLASSES) and f.enclose]))
            lines.append({"form": form.id, "head": draw(st.integers(0, len(form.heads) - 1)), "trail": draw(st.integers(0, len(form.trails) - 1)), "enc": ["", ""], "lead": draw(st.sampled_from(["", " "])), "values": [v, v2], "clss": [c, c2]})
            continue
        forms = [f for f in _FORMS1 if c in f.classes and (f.reject is None or not f.reject(v)) and (":" not in v or "alphabet_mid" not in f.text_kw) and ("\\" not in v or not any('"' in h for h in f.heads))]
        form = draw(st.sampled_from(forms))
        lines.append(
            {
                "form": form.id,
                "head": draw(st.integers(0, len(form.heads) - 1)),
                "trail": draw(st.integers(0, len(form.trails) - 1)),
                "enc": list(draw(st.sampled_from(S.ENCLOSINGS))) if form.enclose and draw(st.booleans()) and "\\" not in v else ["", ""],
                "lead": draw(st.sampled_from(["", "", " ", "   ", "\t"])),
                "value": v,
                "cls": c,
            }
        )
    calls = draw(st.lists(st.integers(1, max(1, len(lines) - 1)), max_size=3)) if draw(st.integers(0, 2)) == 0 else []
    return {"salt": draw(st.sampled_from(["Tsalt", "", "s", "_x", "QzF", "iH"])), "lines": lines, "calls": calls, "nonl": draw(st.integers(0, 3)) == 0}


@st.composite
def _dir_case(draw):
    c = draw(_case(max_lines=16))
    n = len(c["lines"])
    c["cuts"] = draw(st.lists(st.integers(1, max(1, n - 1)), min_size=1, max_size=3))
    c["bad"] = draw(st.lists(st.integers(0, 3), max_size=2, unique=True))
    return c


def t_dir(shard, nshards, seed, ev, known, n=100):
    return core.hyp_drive(_dir_case(), check_dir, n, seed, ev, known, check_name="dir")


def t_history(shard, nshards, seed, ev, known, n=300):
    return core.hyp_drive(_case(), check_history, n, seed, ev, known, check_name="history")


def plan(tier):
    q = tier == "quick"
    return [
        Task("history", t_history, shards=6 if q else 16, n=400 if q else 8000),
        Task("dir", t_dir, shards=3 if q else 16, n=120 if q else 2000),
    ]
