"""C05 - netmasks and preserved addresses stay untouched and nothing collides with them."""

import io

from hypothesis import strategies as st

from .. import core
from ..core import Finding, Task, guarded
from ..gen import ip as G

ID = "C05"
RULE = (
    "masks: exhaustive over the 64 mask/wildcard integers and their 2048 one-bit perturbations (+ Hypothesis "
    "random integers): _is_mask/should_anonymize agree with the harness's predicate; text: lines of space/"
    "punctuation separated IPv4 tokens (masks, perturbed masks, addresses inside/edge/outside preserved networks) in "
    "generated spellings (leading zeros, /len) through anonymize_ip_addr or FileAnonymizer.anonymize_io: mask and "
    "preserved tokens byte-identical, every other token = canonical text of a fresh anonymizer's image; collide: for "
    "y inside a preserved network N deanonymize(y) in N, for x outside N (biased to share len(N)-1..len(N)-4 bits) "
    "anonymize(x) not in N; bulk: the same collision oracle after one anonymizer processed 24000/60000 spread addresses. Non-trivial = outside address sharing >= len(N)-4 bits with N whose image differs / line "
    "with a perturbed mask or preserved token; distinct by case."
)
ASSUMPTIONS = ["mask predicate of the harness: binary form matches 1*0* or 0*1*", "tokens are separated by characters outside [A-Za-z0-9.:] (token boundaries themselves are C06's subject)"]

MASKS = sorted({((1 << 32) - 1) ^ ((1 << k) - 1) for k in range(33)} | {(1 << k) - 1 for k in range(33)})
assert len(MASKS) == 64 and all(G.is_mask(m) for m in MASKS)


def check_mask_pred(case, ev):
    n = case["n"]
    an, exc = guarded(G.mk4, {"salt": "s", "B4": 8, "prefixes": None, "networks": None})
    if exc is not None:
        return core.exc_finding(exc, case, "ctor/")
    want = G.is_mask(n)
    got, exc = guarded(an._is_mask, n)
    if exc is not None:
        return core.exc_finding(exc, case, "is_mask/")
    sa, exc = guarded(an.should_anonymize, n)
    if exc is not None:
        return core.exc_finding(exc, case, "should_anonymize/")
    ev.case(case, True, ["mask" if want else "non-mask"])
    if bool(got) != want or bool(sa) == want:
        return Finding("mask-predicate/%s" % ("mask-not-recognised" if want else "non-mask-accepted"), "%s (%s): _is_mask=%r should_anonymize=%r" % (G.v4_canon(n), format(n, "032b"), got, sa), case)
    return None


def _expected_token(tok_int, spelled, cfg, fresh, undo=False):
    """Expected output text of one IPv4 token."""
    if G.is_mask(tok_int):
        return spelled, "mask"
    for nstr in cfg.get("networks") or []:
        if G.in_net(tok_int, nstr):
            return spelled, "preserved"
    suffix = ""
    if "/" in spelled:
        suffix = spelled[spelled.index("/") :]
    return G.v4_canon(fresh.deanonymize(tok_int) if undo else fresh.anonymize(tok_int)) + suffix, "anonymized"


def check_text(case, ev):
    """case: {cfg, via, toks: [[int, spelled]], seps: [str]} ; line = seps[0] tok seps[1] tok ..."""
    cfg, toks, seps = case["cfg"], case["toks"], case["seps"]
    fresh, exc = guarded(G.mk4, cfg)
    if exc is not None:
        return core.exc_finding(exc, case, "ctor/")
    line = seps[0]
    want = seps[0]
    kinds = []
    for (n, sp), sep in zip(toks, seps[1:]):
        e, kind = _expected_token(n, sp, cfg, fresh, bool(case.get("undo")))
        kinds.append(kind)
        line += sp + sep
        want += e + sep
    from netconan.ip_anonymization import anonymize_ip_addr

    if case.get("prelude"):
        # an earlier anonymizer with other options sees the same tokens first (same process)
        pa, exc = guarded(G.mk4, case["prelude"])
        if exc is not None:
            return core.exc_finding(exc, case, "ctor/")
        _, exc = guarded(anonymize_ip_addr, pa, line)
        if exc is not None:
            return core.exc_finding(exc, case, "prelude/")
    if case["via"] == "cli":
        # through the command line, in either direction; RFC 1918 networks via --preserve-private-addresses
        import os
        import shutil
        import tempfile

        from netconan.netconan import main

        d = tempfile.mkdtemp(prefix="vf-c05-")
        try:
            with open(os.path.join(d, "in.cfg"), "w", encoding="utf-8", newline="") as fh:
                fh.write(line + "\n")
            argv = ["-i", os.path.join(d, "in.cfg"), "-o", os.path.join(d, "out.cfg"), "-s", cfg["salt"], "-u" if case.get("undo") else "-a", "--preserve-host-bits", str(cfg["B4"])]
            if cfg["prefixes"]:
                argv += ["--preserve-prefixes", ",".join(cfg["prefixes"])]
            nets = list(cfg.get("networks") or [])
            if all(r in nets for r in G.RFC1918):
                argv.append("--preserve-private-addresses")
                nets = [n for n in nets if n not in G.RFC1918]
            if nets:
                argv += ["--preserve-addresses", ",".join(nets)]
            _, exc = guarded(main, argv)
            got = None
            if exc is None:
                got = open(os.path.join(d, "out.cfg"), encoding="utf-8", newline="").read()
                got = got[:-1] if got.endswith("\n") else got
        finally:
            shutil.rmtree(d, ignore_errors=True)
    elif case["via"] == "line":
        an, exc = guarded(G.mk4, cfg)
        if exc is not None:
            return core.exc_finding(exc, case, "ctor/")
        got, exc = guarded(anonymize_ip_addr, an, line, bool(case.get("undo")))
    else:
        fa, exc = guarded(G.file_anonymizer, cfg, bool(case.get("undo")))
        if exc is not None:
            return core.exc_finding(exc, case, "ctor/")
        got, exc = guarded(core.run_io, fa, line + "\n", bool(case.get("nonl")))
        if exc is None:
            got = got[:-1] if got.endswith("\n") else got
    if exc is not None:
        return core.exc_finding(exc, case, "text/")
    nt = "preserved" in kinds or any(k == "anonymized" and G.is_mask(n ^ (1 << b)) for (n, _), k in zip(toks, kinds) for b in (0, 7, 8, 15, 16, 23, 24, 31))
    ev.case(case, nt, ["via-" + case["via"]] + (["undo-direction"] if case.get("undo") else []) + (["after-other-anonymizer"] if case.get("prelude") else []) + kinds + (["spelled-noncanonical"] if any(sp.split("/")[0] != G.v4_canon(n) for n, sp in toks) else []))
    if got != want:
        # which token class went wrong (first difference)
        gp = got.split()
        wp = want.split()
        kind = "other"
        if len(gp) == len(wp):
            for g, w in zip(gp, wp):
                if g != w:
                    for (n, sp), k in zip(toks, kinds):
                        if sp in w or (k == "anonymized" and w.startswith(G.v4_canon(fresh.deanonymize(n) if case.get("undo") else fresh.anonymize(n)))):
                            kind = k
                            break
                    break
        return Finding("text/%s-token-wrong" % kind, "cfg=%r line=%r -> %r, expected %r" % (cfg, line, got, want), case)
    return None


def check_collide(case, ev):
    """case: {cfg (with networks), net, y (inside net), x (outside net)}"""
    cfg, net, y, x = case["cfg"], case["net"], case["y"], case["x"]
    v, l = G.parse_cidr(net)
    an, exc = guarded(G.mk4, cfg)
    if exc is not None:
        return core.exc_finding(exc, case, "ctor/")
    pre, exc = guarded(an.deanonymize, y)
    if exc is not None:
        return core.exc_finding(exc, case, "deanonymize/")
    an2, _ = guarded(G.mk4, cfg)
    img, exc = guarded(an2.anonymize, x)
    if exc is not None:
        return core.exc_finding(exc, case, "anonymize/")
    shared = G.cpl(x, v, 32)
    ev.case(case, (not G.in_net(x, net)) and shared >= l - 4 and img != x, ["len%d" % (l // 8 * 8), "shared>=len-4" if shared >= l - 4 else "far", "B%d" % cfg["B4"] if cfg["B4"] in (0, 8, 32) else "Bother"])
    if not G.in_net(pre, net):
        return Finding("collide/outside-address-maps-into-preserved-network", "cfg=%r: %s (outside %s) is the pre-image of preserved %s" % (cfg, G.v4_canon(pre), net, G.v4_canon(y)), case)
    if not G.in_net(x, net) and G.in_net(img, net):
        return Finding("collide/outside-address-maps-into-preserved-network", "cfg=%r: %s (outside %s) -> %s inside" % (cfg, G.v4_canon(x), net, G.v4_canon(img)), case)
    if G.in_net(x, net) and not G.in_net(img, net):
        return Finding("collide/inside-address-leaves-network", "cfg=%r: %s in %s -> %s" % (cfg, G.v4_canon(x), net, G.v4_canon(img)), case)
    return None


def check_bulk(case, ev):
    """case: {cfg (with networks), n, start, stride, probes:[[net, y, x]]}: the collision oracle
    after one anonymizer has processed n spread addresses (long runs / big inputs)."""
    cfg, n = case["cfg"], case["n"]
    an, exc = guarded(G.mk4, cfg)
    if exc is not None:
        return core.exc_finding(exc, case, "ctor/")
    mult = case["stride"] | 1
    for i in range(n):
        _, exc = guarded(an.anonymize, (case["start"] + i * mult) & G.M32)
        if exc is not None:
            return core.exc_finding(exc, case, "anonymize/")
    ev.bulk(1, 1, sample={"cfg": cfg, "n": n})
    ev.notes["addresses_loaded"] = ev.notes.get("addresses_loaded", 0) + n
    for net, y, x in case["probes"]:
        img, exc = guarded(an.anonymize, x)
        if exc is not None:
            return core.exc_finding(exc, case, "anonymize/")
        if G.in_net(img, net) != G.in_net(x, net):
            return Finding("bulk/collision-with-preserved-network-after-long-run", "cfg=%r: after %d addresses %s -> %s (network %s)" % (cfg, n, G.v4_canon(x), G.v4_canon(img), net), case)
        pre, exc = guarded(an.deanonymize, y)
        if exc is not None:
            return core.exc_finding(exc, case, "deanonymize/")
        if not G.in_net(pre, net):
            return Finding("bulk/collision-with-preserved-network-after-long-run", "cfg=%r: after %d addresses %s (outside %s) is the pre-image of preserved %s" % (cfg, n, G.v4_canon(pre), net, G.v4_canon(y)), case)
    return None


# realistic lines holding an address AND a secret: with the password stage on (-p -a) the address
# token must still come out as C05 says ({a} address, {m} a mask, {s} a secret value)
PWD_TEMPLATES = [
    "snmp-server host inside {a} community {s}",
    "snmp-server host {a} version 2c {s}",
    "snmp-server host {a} traps {s}",
    "snmp-server host {a} {s}",
    "snmp-server community {s} RO {a}",
    "tacacs-server host {a} key {s}",
    "tacacs-server host {a} key 7 0822455D0A16",
    "radius-server host {a} auth-port 1812 acct-port 1813 key {s}",
    "neighbor {a} password {s}",
    "neighbor {a} password 7 13061E010803",
    "crypto isakmp key {s} address {a}",
    "crypto isakmp key {s} address {a} {m}",
    "server-private {a} key {s}",
    " ip ospf message-digest-key 1 md5 {s} ! peer {a}",
    "ntp server {a} key 5",
    "set system tacplus-server {a} secret \"$9$GEDkm0ORhrv8xYg4JHk\"",
    "set snmp community {s} clients {a}/32",
    "set security ike policy p1 pre-shared-key ascii-text {s} ; gateway {a}",
    "username admin password {s} ! from {a} {m}",
    "enable secret 5 $1$mERr$hx5rVt7rPNoS4wqbXKX7m0 ! console {a}",
    "ip route {a} {m} {a}",
    "set password {s} ; set ip {a} {m}",
]


def check_pwdline(case, ev):
    """case: {cfg, tpl, addrs: [int], mask, secret, undo}"""
    cfg = case["cfg"]
    fresh, exc = guarded(G.mk4, cfg)
    if exc is not None:
        return core.exc_finding(exc, case, "ctor/")
    undo = bool(case.get("undo"))
    tpl = PWD_TEMPLATES[case["tpl"]]
    it = iter(case["addrs"])
    parts, want_at = [], {}
    for i, t in enumerate(tpl.split(" ")):
        if t.startswith("{a}"):
            n = next(it)
            sp = G.v4_canon(n)
            e, kind = _expected_token(n, sp, cfg, fresh, undo)
            want_at[i] = (e + t[3:], kind)
            parts.append(sp + t[3:])
        elif t == "{m}":
            want_at[i] = (G.v4_canon(case["mask"]), "mask")
            parts.append(G.v4_canon(case["mask"]))
        else:
            parts.append(t.replace("{s}", case["secret"]))
    line = " ".join(parts)
    fa, exc = guarded(G.file_anonymizer, cfg, undo, anon_pwd=True)
    if exc is not None:
        return core.exc_finding(exc, case, "ctor/")
    got, exc = guarded(core.run_io, fa, line + "\n", bool(case.get("nonl")))
    if exc is not None:
        return core.exc_finding(exc, case, "text/")
    kinds = [k for _, k in want_at.values()]
    ev.case(case, "preserved" in kinds, ["with-password-stage", "tpl%02d" % case["tpl"]] + kinds + (["undo-direction"] if undo else []))
    gp = got.rstrip("\n").split(" ")
    if len(gp) != len(parts):
        return Finding("pwdline/token-count-changed", "%r -> %r" % (line, got), case)
    for i, (e, kind) in want_at.items():
        if gp[i] != e:
            return Finding("pwdline/%s-token-wrong-with-password-stage-on" % kind, "cfg=%r line %r -> %r: token %d should be %r" % (cfg, line, got, i, e), case)
    return None


def check_mixedlist(case, ev):
    """A list of preserved networks in which an IPv6 network stands between the IPv4 ones (accepted: the
    option is documented as "IP addresses or networks"): addresses inside every IPv4 network of the list
    are still emitted as written.  case: {salt, B, networks: [...], probes: [int]}"""
    from netconan.ip_anonymization import IpAnonymizer, anonymize_ip_addr

    an, exc = guarded(lambda: IpAnonymizer(case["salt"], None, list(case["networks"]), preserve_suffix=case["B"]))
    if exc is not None:
        return core.exc_finding(exc, case, "ctor/")
    ev.case(case, True, ["ipv6-network-in-the-list"])
    for x in case["probes"]:
        line = "ip address %s 255.255.255.0" % G.v4_canon(x)
        out, exc = guarded(anonymize_ip_addr, an, line, bool(case.get("undo")))
        if exc is not None:
            return core.exc_finding(exc, case, "text/")
        if out != line:
            return Finding("text/preserved-token-wrong:list-with-an-ipv6-network", "networks=%r: %r -> %r" % (case["networks"], line, out), case)
    return None


REPLAY = {"mixedlist": check_mixedlist, "pwdlines": check_pwdline, "bulk": check_bulk, "masks": check_mask_pred, "masks_random": check_mask_pred, "text": check_text, "text_long": check_text, "collide": check_collide}

_SEPS = st.sampled_from([" ", "  ", " , ", "\t", " (", ") ", " - ", ";", " netmask ", " mask ", " wildcard ", "|", "=", " eq "])


@st.composite
def _text_case(draw):
    cfg = draw(G.config(networks="always" if draw(st.booleans()) else "maybe"))
    toks = []
    for _ in range(draw(st.integers(1, 5))):
        kind = draw(st.sampled_from(["mask", "perturbed", "near", "random"]))
        if kind == "mask":
            n = draw(st.sampled_from(MASKS))
        elif kind == "perturbed":
            n = draw(st.sampled_from(MASKS)) ^ (1 << draw(st.integers(0, 31)))
        elif kind == "near" and cfg.get("networks"):
            n = draw(G.addr_near(cfg["networks"]))
        else:
            n = draw(G.u32)
        if toks and draw(st.integers(0, 4)) == 0:
            n = draw(st.sampled_from(toks))[0]  # the same value again, usually in another spelling
        toks.append([n, draw(G.v4_spelling(n))])
    seps = [draw(st.sampled_from(["", " ", "ip address ", " permit ip "]))]
    for i in range(len(toks)):
        seps.append(draw(_SEPS) if i < len(toks) - 1 else draw(st.sampled_from(["", " ", " log", ";"])))
    prelude = draw(G.config()) if draw(st.integers(0, 2)) == 0 else None
    via = draw(st.sampled_from(["line", "io", "line", "io", "cli"]))
    if via == "cli":
        if cfg["prefixes"] == []:
            cfg["prefixes"] = None  # an empty list cannot be given on the command line
        cfg["salt"] = draw(st.text(alphabet="abcXYZ019_", min_size=0, max_size=6))
        if draw(st.booleans()):
            cfg["networks"] = list(G.RFC1918) + (draw(G.cidr_list(max_size=2, lengths=st.integers(8, 32))) if draw(st.booleans()) else [])
            for i, (n, sp) in enumerate(toks):
                if draw(st.integers(0, 2)) == 0:
                    n2 = draw(G.addr_near(G.RFC1918))
                    toks[i] = [n2, draw(G.v4_spelling(n2))]
        prelude = None
    return {"cfg": cfg, "via": via, "toks": toks, "seps": seps, "prelude": prelude, "undo": draw(st.integers(0, 3)) == 0, "nonl": draw(st.integers(0, 3)) == 0}


@st.composite
def _pwdline_case(draw):
    cfg = draw(G.config(networks="always"))
    tpl = draw(st.integers(0, len(PWD_TEMPLATES) - 1))
    addrs = []
    for _ in range(PWD_TEMPLATES[tpl].count("{a}")):
        addrs.append(draw(G.addr_near(cfg["networks"])) if draw(st.integers(0, 3)) else draw(G.u32))
    return {"cfg": cfg, "tpl": tpl, "addrs": addrs, "mask": draw(st.sampled_from(MASKS)), "secret": draw(st.sampled_from(["Secr3tKey", "c0mmunity-X", "Zx81Qp", "hunter2hunter2"])), "undo": draw(st.integers(0, 3)) == 0, "nonl": draw(st.integers(0, 3)) == 0}


@st.composite
def _collide_case(draw):
    cfg = draw(G.config(networks="always"))
    net = draw(st.sampled_from(cfg["networks"]))
    v, l = G.parse_cidr(net)
    y = v | (draw(G.u32) & ((1 << (32 - l)) - 1))
    if l == 0:
        x = draw(G.u32)
    else:
        pos = draw(st.one_of(st.integers(max(0, l - 4), l - 1), st.integers(0, l - 1)))
        x = (v | (draw(G.u32) & ((1 << (32 - l)) - 1))) ^ (1 << (31 - pos))
        low = 31 - pos
        if low and draw(st.booleans()):
            x = ((x >> low) << low) | (draw(G.u32) & ((1 << low) - 1))
    return {"cfg": cfg, "net": net, "y": y, "x": x}


@st.composite
def _bulk_case(draw, n):
    probes = []
    cc = None
    for _ in range(12):
        c = draw(_collide_case())
        if cc is None:
            cc = c["cfg"]
            cc["B4"] = draw(st.sampled_from([0, 0, 4]))
        net = draw(st.sampled_from(cc["networks"]))
        v, l = G.parse_cidr(net)
        y = v | (draw(G.u32) & ((1 << (32 - l)) - 1))
        x = y ^ (1 << (31 - draw(st.integers(max(0, l - 4), l - 1)))) if l else y
        probes.append([net, y, x])
    return {"cfg": cc, "n": n, "start": draw(G.u32), "stride": draw(st.integers(1 << 18, G.M32)), "probes": probes}


def t_bulk(shard, nshards, seed, ev, known, n=1, size=24000):
    # the first examples Hypothesis generates are the simplest ones (empty lists, zero values): skip them
    cases = core.collect_cases(_bulk_case(size), n + 3, seed)[3:]
    return core.enum_drive(cases, check_bulk, ev, known, "bulk")


def t_text_long(shard, nshards, seed, ev, known, n=5500):
    """One physical line (> 64 KiB) of masks, preserved and ordinary addresses through anonymize_io."""
    cases = []
    for k in range(nshards):
        if k % nshards != shard:
            continue
        cfg = {"salt": "ml%d" % k, "B4": 8, "B6": 8, "prefixes": None, "networks": ["10.0.0.0/8", "203.0.113.0/24"], "mode": "default"}
        toks = []
        for i in range(n):
            h = core.derive("ml", seed, k, i)
            if h % 3 == 0:
                x = MASKS[(h >> 4) % 64]
            elif h % 3 == 1:
                x = (10 << 24) | ((h >> 4) & 0xFFFFFF)
            else:
                x = (h >> 4) & G.M32
            toks.append([x, G.v4_canon(x) if h % 5 else "%03d.%03d.%03d.%03d" % (x >> 24, (x >> 16) & 255, (x >> 8) & 255, x & 255)])
        cases.append({"cfg": cfg, "via": "io", "toks": toks, "seps": [""] + [" "] * (n - 1) + [""], "prelude": None, "undo": k % 2 == 1})
    return core.enum_drive(cases, check_text, ev, known, "text_long")


def t_masks(shard, nshards, seed, ev, known):
    ints = sorted(set(MASKS) | {m ^ (1 << b) for m in MASKS for b in range(32)})
    fs = core.enum_drive(({"n": n} for n in ints), check_mask_pred, ev, known, "masks")
    ev.exhaustive["all_64_masks_and_their_one_bit_perturbations"] = len(ints)
    return fs


def t_masks_random(shard, nshards, seed, ev, known, n=2000):
    s = st.fixed_dictionaries({"n": st.one_of(G.u32, st.builds(lambda a, b: a ^ (1 << b), st.sampled_from(MASKS), st.integers(0, 31)), st.builds(lambda a, b, c: a ^ (1 << b) ^ (1 << c), st.sampled_from(MASKS), st.integers(0, 31), st.integers(0, 31)))})
    return core.hyp_drive(s, check_mask_pred, n, seed, ev, known, check_name="masks_random")


def t_text(shard, nshards, seed, ev, known, n=1000):
    return core.hyp_drive(_text_case(), check_text, n, seed, ev, known, check_name="text")


def t_collide(shard, nshards, seed, ev, known, n=1000):
    return core.hyp_drive(_collide_case(), check_collide, n, seed, ev, known, check_name="collide")


@st.composite
def _mixed_case(draw):
    v4 = draw(st.one_of(G.cidr_list(min_size=1, max_size=3, lengths=st.integers(8, 30)), st.just(list(G.RFC1918))))
    k = draw(st.integers(0, len(v4)))
    nets = v4[:k] + [draw(st.sampled_from(["2001:db8::/32", "fe80::/10", "2001:db8:1::/48"]))] + v4[k:]
    probes = []
    for p in v4:
        v, l = G.parse_cidr(p)
        probes += [x for x in (v | (draw(G.u32) & ((1 << (32 - l)) - 1)) for _ in range(2)) if not G.is_mask(x)]
    return {"salt": draw(G.salts), "B": draw(st.sampled_from([0, 8, 2])), "networks": nets, "probes": probes, "undo": draw(st.integers(0, 3)) == 0}


def t_mixedlist(shard, nshards, seed, ev, known, n=300):
    return core.hyp_drive(_mixed_case(), check_mixedlist, n, seed, ev, known, check_name="mixedlist")


def t_pwdlines(shard, nshards, seed, ev, known, n=400):
    return core.hyp_drive(_pwdline_case(), check_pwdline, n, seed, ev, known, check_name="pwdlines")


def plan(tier):
    q = tier == "quick"
    return [
        Task("masks", t_masks),
        Task("masks_random", t_masks_random, shards=1 if q else 8, n=3000 if q else 100000),
        Task("text", t_text, shards=3 if q else 16, n=1000 if q else 15000),
        Task("text_long", t_text_long, shards=3 if q else 6, n=12000 if q else 30000),
        Task("mixedlist", t_mixedlist, shards=1 if q else 8, n=300 if q else 6000),
        Task("pwdlines", t_pwdlines, shards=2 if q else 8, n=500 if q else 8000),
        Task("collide", t_collide, shards=3 if q else 16, n=1700 if q else 20000),
        Task("bulk", t_bulk, shards=3 if q else 8, n=1 if q else 4, size=24000 if q else 60000),
    ]
