"""C14 - anonymization is total: no line content or salt can make it fail."""

import logging
import os
import shutil
import tempfile

from hypothesis import strategies as st

from .. import core
from ..core import Finding, Task, guarded
from ..gen import secrets as S
from ..ref import juniper9 as J

ID = "C14"
RULE = (
    "lines: Hypothesis lines without line terminators from four generators - (a) arbitrary Unicode text; (b) form "
    "mutation: a recognised secret line from the harness's form table whose secret slot (or any other position) holds a "
    "poisonous token: backslash sequences (\\u \\1 \\g<9> trailing \\), regex metacharacters, malformed hashes ($1$ with "
    "0/9/40-character salt or extra $ fields, $9$ with characters outside the alphabet incl. '_' and non-ASCII letters, "
    "truncated $9$/$6$), near-IPv6 text (fe80:%x, fe80:::%1, ::01.2.3.4), runs of up to 5000 brackets/quotes/semicolons; "
    "(c) token soup from the keywords of all patterns; (d) address-like soup - under any salt (empty, any first character), "
    "all 16 feature subsets (+ undo), valid option sets. Oracle: anonymize_io returns and writes exactly one line per input "
    "line; any exception is a violation keyed by type and innermost netconan frame. files: a generated file with a poisonous "
    "line in the middle must yield an output file with the same number of lines and no ERROR record. long: one anonymizer "
    "processes one text with thousands of distinct IPv4/IPv6 addresses and secrets. fuzz (thorough): "
    "atheris coverage-guided campaign on the same target with the oracle inside. Non-trivial = line on which at least one "
    "stage acts (output differs from input) or that contains a pattern keyword / hash prefix; distinct by line."
)
ASSUMPTIONS = [
    "a line is any string without \\n or \\r",
    "option sets are valid: sensitive words are plain words, AS numbers canonical decimals, host bits 0..32",
]

WORDS = ["zorgon", "net", "Kwyjibo"]
ASNS = ["65001", "123", "4200000001"]


def make_fa(case):
    from netconan.anonymize_files import FileAnonymizer

    pwd, ip, words, asn = case["features"]
    undo = bool(case.get("undo")) and ip
    return FileAnonymizer(
        anon_pwd=bool(pwd),
        anon_ip=bool(ip) and not undo,
        undo_ip_anon=undo,
        salt=case["salt"],
        sensitive_words=list(WORDS) if words else None,
        as_numbers=list(case.get("asns") or ASNS) if asn else None,
        reserved_words=list(case["reserved"]) if case.get("reserved") else None,
        preserve_suffix_v4=case.get("B", 8),
        preserve_suffix_v6=case.get("B", 8),
    )


def check_line(case, ev):
    line = case["line"]
    fa, exc = guarded(make_fa, case)
    if exc is not None:
        return core.exc_finding(exc, case, "ctor/")
    out, exc = guarded(core.run_io, fa, line + "\n", bool(case.get("nonl")))
    feats = "".join("pinw"[i] if f else "-" for i, f in enumerate(case["features"]))
    low = line.lower()
    nt = (exc is None and out != line + "\n") or "$9$" in line or "$1$" in line or any(k in low for k in ("password", "secret", "key", "community"))
    ev.case(line, nt, ["gen-" + case.get("gen", "?"), "features-" + feats, "salt-" + ("empty" if case["salt"] == "" else "juniper-char" if case["salt"][0] in J.POS else "other-first-char")] + (["user-reserved-words"] if case.get("reserved") else []))
    if exc is not None:
        return core.exc_finding(exc, case, "line/")
    if not isinstance(out, str) or out.count("\n") != 1 or not out.endswith("\n"):
        return Finding("line/not-exactly-one-line-out", "%r -> %r" % (line[:200], out[:200] if isinstance(out, str) else out), case)
    return None


def check_file(case, ev):
    """case: {before: [lines], line, after: [lines], salt, features}: no truncated/missing output."""
    from netconan.anonymize_files import anonymize_files

    pwd, ip, words, asn = case["features"]
    lines = case["before"] + [case["line"]] + case["after"]
    d = tempfile.mkdtemp(prefix="vf-c14-")
    try:
        with open(os.path.join(d, "in.cfg"), "w", encoding="utf-8", newline="") as fh:
            fh.write("".join(l + "\n" for l in lines))
        with core.capture_logs(logging.ERROR) as records:
            _, exc = guarded(
                anonymize_files,
                os.path.join(d, "in.cfg"),
                os.path.join(d, "out.cfg"),
                bool(pwd),
                bool(ip),
                salt=case["salt"],
                sensitive_words=list(WORDS) if words else None,
                as_numbers=list(ASNS) if asn else None,
                preserve_suffix_v4=8,
                preserve_suffix_v6=8,
            )
        errs = [m for lv, m in records]
        got = open(os.path.join(d, "out.cfg"), encoding="utf-8", newline="").read() if os.path.exists(os.path.join(d, "out.cfg")) else None
    finally:
        shutil.rmtree(d, ignore_errors=True)
    ev.case(case["line"], True, ["gen-" + case.get("gen", "?")])
    if exc is not None:
        return core.exc_finding(exc, case, "file/")
    if errs:
        return Finding("file/error-logged", "ERROR records %r for a file with line %r" % (errs[:2], case["line"][:200]), case)
    if got is None:
        return Finding("file/output-missing", "no output file", case)
    if got.count("\n") != len(lines):
        return Finding("file/output-truncated", "%d lines in, %d out (poisonous line %r)" % (len(lines), got.count("\n"), case["line"][:200]), case)
    return None


def check_long(case, ev):
    """case: {salt, n4, n6, start4, start6, stride}: one FileAnonymizer processes one long text with
    thousands of distinct addresses (plus secrets); every line must come out."""
    n4, n6 = case["n4"], case["n6"]
    lines = []
    for i in range(max(n4, n6)):
        if i < n4:
            x = (case["start4"] + i * (case["stride"] | 1)) & 0xFFFFFFFF
            lines.append(" ip address %d.%d.%d.%d 255.255.255.0" % (x >> 24, (x >> 16) & 255, (x >> 8) & 255, x & 255))
        if i < n6:
            y = (case["start6"] + (i + 1) * ((case["stride"] << 100) | (case["start4"] << 40) | 0x9E3779B97F4A7C15)) & ((1 << 128) - 1)  # spread over the whole space
            lines.append("ipv6 address %x:%x:%x:%x:%x:%x:%x:%x/64" % tuple((y >> (16 * (7 - g))) & 0xFFFF for g in range(8)))
        if i % 50 == 0:
            lines.append("username u%d password Pw%dxQ" % (i, i))
    fa, exc = guarded(make_fa, {"features": [True, True, False, False], "salt": case["salt"], "B": case.get("B", 8)})
    if exc is not None:
        return core.exc_finding(exc, case, "ctor/")
    out, exc = guarded(core.run_io, fa, "".join(l + "\n" for l in lines))
    ev.bulk(len(lines), len(lines), sample=case, classes={"gen-long-file": len(lines)})
    if exc is not None:
        return core.exc_finding(exc, case, "long/")
    if out.count("\n") != len(lines):
        return Finding("long/line-count-changed", "%d lines in, %d out" % (len(lines), out.count("\n")), case)
    return None


def check_dirfaults(case, ev):
    """A directory in which some entries cannot even be opened (dangling symbolic link) or whose output
    directory cannot be made (a plain file sits at that path): the run must end normally and every other
    file must be written completely.  case: {names: [relative paths], faults: {path: kind}, features, salt}"""
    from netconan.anonymize_files import anonymize_files

    pwd, ip, words, asn = case["features"]
    d = tempfile.mkdtemp(prefix="vf-c14d-")
    try:
        src, dst = os.path.join(d, "in"), os.path.join(d, "out")
        os.makedirs(dst)
        good = {}
        for k, rel in enumerate(case["names"]):
            p_ = os.path.join(src, rel)
            os.makedirs(os.path.dirname(p_), exist_ok=True)
            kind = case["faults"].get(rel)
            if kind == "dangling":
                os.symlink(os.path.join(d, "no-such-target-%d" % k), p_)
                continue
            text = "".join("hostname r%d-%d\npassword Secret%dx%d\n ip address 10.%d.%d.1 255.255.255.0\n" % (k, j, k, j, k, j) for j in range(3 + k))
            with open(p_, "w") as fh:
                fh.write(text)
            if kind == "outdir-is-a-file":
                # the directory this file's output belongs into exists as a plain file
                top = rel.split("/")[0]
                if not os.path.exists(os.path.join(dst, top)):
                    with open(os.path.join(dst, top), "w") as fh:
                        fh.write("not a directory\n")
                continue
            good[rel] = text
        blocked_tops = {rel.split("/")[0] for rel, kd in case["faults"].items() if kd == "outdir-is-a-file"}
        good = {r: t for r, t in good.items() if r.split("/")[0] not in blocked_tops}
        with core.capture_logs(logging.ERROR) as records:
            _, exc = guarded(anonymize_files, src, dst, bool(pwd), bool(ip), salt=case["salt"], sensitive_words=list(WORDS) if words else None, as_numbers=list(ASNS) if asn else None)
        ev.case(case, bool(case["faults"]) and len(good) >= 2, ["directory-with-unopenable-entries"] + sorted(set(case["faults"].values())))
        if exc is not None:
            return core.exc_finding(exc, case, "dir/")
        for rel, text in sorted(good.items()):
            p_ = os.path.join(dst, rel)
            if not os.path.isfile(p_):
                return Finding("dir/no-output-for-a-good-file-next-to-an-unopenable-one", "no output for %r (entries %r, faults %r); ERROR records: %r" % (rel, case["names"], case["faults"], [m for _, m in records][:3]), case)
            if open(p_).read().count("\n") != text.count("\n"):
                return Finding("dir/output-truncated-next-to-an-unopenable-entry", "%r: %d lines in, %d out" % (rel, text.count("\n"), open(p_).read().count("\n")), case)
    finally:
        shutil.rmtree(d, ignore_errors=True)
    return None


REPLAY = {"dirfaults": check_dirfaults, "lines": check_line, "files": check_file, "fuzz": check_line, "long": check_long}

# ---------------------------------------------------------------- generators

_NOEOL = st.characters(blacklist_characters="\n\r", blacklist_categories=("Cs",))
_unicode_line = st.text(alphabet=_NOEOL, max_size=60)

POISON = [
    "\\", "\\u", "\\1", "\\g<9>", "\\g<prefix>", "a\\", "dom\\user", "\\b\\n\\x", "(", ")", "[", "]", "(?P<x>", "*", "+?", "{1,", "|", "^$", ".*", "\\\\",
    "$1$", "$1$$", "$1$$hash", "$1$salt", "$1$123456789$abc", "$1$" + "s" * 40 + "$h", "$1$salt$a$b", "$1$salt$ABCDEF$", "$1$salt$", "$1$$$", "$1$é$x",
    "$9$", "$9$a", "$9$abc", "$9$CSx_tpBREyKvL", "$9$CSxépBREyKvL", "$9$CSx١pBREyKvL", "$9$ab,cd", "$9$CSxptpBREyKv", "$9$Qne", "$9$-", "$9$$9$", "$9$CSxptpBREyKvL$", '"$9$',
    "$6$", "$6$rounds=5000$x$y", "$6$$", "$5$abc$def", "$2a$10$abc", "$6$rounds=656000", "$6$rounds=", "$6$rounds=5000$", "$6$rounds=x$salt$hash", "$6$abc", "$6$abc$", "$6$$$", "$6$" + "s" * 40 + "$h",
    "fe80:%x", "fe80:::%1", "fe80::%", "fe80:%", "::01.2.3.4", "1.2.3.4.5", "256.256.256.256", "::", ":::", "1::2::3", "::ffff:1.2.3.256", "1:2:3:4:5:6:7:8:9", "00000001.2.3.4", "1.2.3.4/999", "::/", "fe80::1%",
    "\x00", "\x0b", "\x0c", "\x1c\x1d\x85", " ", " ", "﻿", "\U0001f600", "١٢", "１２",
    "'", '"', "\\'", '\\"', "';", '""', "[[", "}}", ";;", ",",
]
_RUN_CHARS = ["[", "]", "{", "}", '"', "'", ";", ",", " ", "\\'", '\\"', "(", "$", "\t", "["]


@st.composite
def _poison(draw):
    k = draw(st.integers(0, 10))
    if k <= 5:
        return draw(st.sampled_from(POISON))
    if k == 6:
        if draw(st.integers(0, 3)) == 0:
            z = "0" * draw(st.sampled_from([300, 4400, 5000]))
            return draw(st.sampled_from([z + "1.2.3.4", "1." + z + "2.3.4", "1.2.3." + z + "4", z, "9" * 5000, "::" + z[:3000] + "1", "1.2.3.4/" + z[:4400] + "8", "$9$" + "Q" * 5000, "$1$" + "a" * 5000 + "$b"]))
        return draw(st.sampled_from(_RUN_CHARS)) * draw(st.sampled_from([50, 400, 1100, 3000, 5000]))
    if k == 7:
        return draw(st.sampled_from(POISON)) + draw(st.sampled_from(POISON))
    if k == 8:
        if draw(st.booleans()):
            # a valid $9$ / $1$ value with one character replaced by a foreign one at any position
            v = draw(st.one_of(S.j9_value(), S.md5_value(), S.type7_value()))
            i = draw(st.integers(0, len(v) - 1))
            return v[:i] + draw(st.sampled_from(["_", "é", "١", ",", "$", "\\", " ", "Ω", "²"])) + v[i + 1 :]
        return draw(st.text(alphabet=_NOEOL, min_size=1, max_size=8))
    if k == 10:
        v = draw(st.one_of(S.j9_value(), S.md5_value(), S.sha512_value(), S.sha512_value().map(lambda h: h.replace("$6$", "$6$rounds=656000$"))))
        return draw(st.sampled_from([v[: draw(st.integers(3, len(v)))], v[: draw(st.integers(3, min(len(v), 24)))], v + "$", v + v, v.replace("$", "$$", 1), v[:3] + v[4:]]))
    return draw(st.sampled_from(["[", "{", '"'])) * draw(st.integers(1, 3)) + draw(st.sampled_from(POISON)) + draw(st.sampled_from(["]", "}", '"', ";"])) * draw(st.integers(1, 3))


@st.composite
def _mutated_form(draw):
    form = draw(st.sampled_from(S.FORMS))
    vals = [draw(_poison()) if draw(st.integers(0, 3)) else draw(S.secret_for(form))[1] for _ in range(form.slots)]
    line, _ = S.render(form, draw(st.integers(0, 20)), draw(st.integers(0, 5)), vals, draw(st.sampled_from(S.ENCLOSINGS)), draw(st.sampled_from(["", " ", "\t"])), draw(st.sampled_from(["", " "])))
    if draw(st.integers(0, 2)) == 0:
        toks = line.split(" ")
        i = draw(st.integers(0, len(toks)))
        toks.insert(i, draw(_poison()))
        line = " ".join(toks)
    return line.replace("\n", " ").replace("\r", " ")


@st.composite
def _corpus_line(draw):
    """An ordinary configuration line, as it is or with a token replaced / inserted."""
    toks = draw(st.sampled_from(S.CORPUS)).split(" ")
    k = draw(st.integers(0, 3))
    if k == 1:
        toks[draw(st.integers(0, len(toks) - 1))] = draw(_poison())
    elif k == 2:
        toks.insert(draw(st.integers(0, len(toks))), draw(st.sampled_from(S.KEYWORDS + ["{", "}", ";"])))
    elif k == 3:
        toks = toks[draw(st.integers(0, len(toks) - 1)) :]
    return " ".join(toks).replace("\n", " ").replace("\r", " ")


_soup_tok = st.one_of(st.sampled_from(S.KEYWORDS), st.sampled_from(S.BENIGN), st.sampled_from(POISON), st.sampled_from(WORDS + ASNS + ["7", "0", "5", "1.2.3.4", "::1", "10.0.0.0/8", "255.255.255.0"]))
_soup = st.lists(_soup_tok, min_size=1, max_size=9).map(lambda t: " ".join(t).replace("\n", " ").replace("\r", " "))
_addr_soup = st.lists(st.sampled_from(list("0123456789abcdefg.:/% ") + ["fe80", "ffff", "::", "255", "256"]), min_size=1, max_size=30).map("".join)

_salt = st.one_of(st.sampled_from(["", "s", "_", " ", "é", "\x00", "Tsalt", "$", "\\", "\U0001f600x", "Q", "i"]), st.text(max_size=6))
_features = st.lists(st.booleans(), min_size=4, max_size=4)


@st.composite
def _case(draw):
    gen = draw(st.sampled_from(["unicode", "form", "form", "form", "soup", "addr", "corpus"]))
    line = draw({"unicode": _unicode_line, "form": _mutated_form(), "soup": _soup, "addr": _addr_soup, "corpus": _corpus_line()}[gen])
    feats = draw(_features)
    if gen in ("form", "corpus") and draw(st.integers(0, 3)):
        feats[0] = True
    if gen == "addr" and draw(st.integers(0, 3)):
        feats[1] = True
    asns = None
    if draw(st.integers(0, 4)) == 0:
        # what `-n "65000, 65001,065002"` becomes after splitting on commas
        asns = draw(st.sampled_from([["65000", " 65001"], ["065002", "65002"], ["123", "123"], ["7 ", "65001"], ["00", "0"]]))
        line = line + " " + draw(st.sampled_from(asns)).strip() + " " + draw(st.sampled_from(["65001", "065002", "0", "7"]))
        feats[3] = True
    elif draw(st.integers(0, 5)) == 0:
        # lists holding the registry's special numbers (AS_TRANS, documentation ranges, block ends)
        asns = draw(st.lists(st.sampled_from(["23456", "0", "65535", "65536", "64496", "64511", "64512", "65551", "4199999999", "4200000000", "4294967294", "4294967295"]), min_size=1, max_size=4, unique=True))
        line = line + " " + " ".join(draw(st.lists(st.sampled_from(asns), min_size=1, max_size=3)))
        feats[3] = True
    return {"line": line, "salt": draw(_salt), "features": feats, "undo": draw(st.integers(0, 5)) == 0, "B": draw(st.sampled_from([8, 8, 0, 32])), "gen": gen, "nonl": draw(st.integers(0, 4)) == 0, "asns": asns, "reserved": draw(st.lists(st.sampled_from(WORDS + ASNS + (asns or []) + ["LabKey", "permit", "Zorgon-gw", "x"]), min_size=1, max_size=5, unique=True)) if draw(st.integers(0, 3)) == 0 else None}


@st.composite
def _file_case(draw):
    c = draw(_case())
    benign = st.sampled_from(["interface Gi0/1", " ip address 10.1.2.3 255.255.255.0", "!", "password foo", "router bgp 65001", ""])
    c["before"] = draw(st.lists(benign, max_size=4))
    c["after"] = draw(st.lists(benign, min_size=1, max_size=4))
    c.pop("undo", None)
    return c


def t_lines(shard, nshards, seed, ev, known, n=1000):
    fs = core.hyp_drive(_case(), check_line, n, seed, ev, known, check_name="lines", max_keys=10)
    if shard == 0:
        # a fixed family that random generation reaches only now and then: digit runs longer than the
        # interpreter's integer-conversion limit (4300 digits) in every place an address can hold digits
        z = "0" * 4400
        fixed = [z + "1.2.3.4", "1." + z + "2.3.4", "1.2.3." + z + "4", "ip address 10.1.2." + z + "7 255.255.255.0", "1.2.3.4/" + z + "8", "::" + z[:3000] + "1", "2001:db8::1/" + z + "64", "9" * 5000, "router bgp " + "6" * 4500, "$9$" + "Q" * 5000, "$1$" + "a" * 5000 + "$b", "password 7 " + "0" * 4402]
        cases = [{"line": ln_, "salt": ["s", "", "_x"][i % 3], "features": f_, "undo": u_, "B": 8, "gen": "fixed-long-digits", "asns": None, "reserved": None} for i, ln_ in enumerate(fixed) for f_ in ([True, True, True, True], [False, True, False, False]) for u_ in (False, True)]
        fs = fs + core.enum_drive(cases, check_line, ev, known, "lines")
    return fs


def t_files(shard, nshards, seed, ev, known, n=100):
    return core.hyp_drive(_file_case(), check_file, n, seed, ev, known, check_name="files", max_keys=6)


@st.composite
def _dirfault_case(draw):
    names = draw(st.lists(st.sampled_from(["a.cfg", "b.cfg", "m.cfg", "z.cfg", "sub/a.cfg", "sub/k.cfg", "t/y.cfg", "t/deep/x.cfg", "u/only.cfg"]), min_size=3, max_size=8, unique=True))
    faults = {}
    for rel in names:
        kd = draw(st.sampled_from([None, None, None, "dangling", "outdir-is-a-file" if "/" in rel else None]))
        if kd:
            faults[rel] = kd
    return {"names": names, "faults": faults, "features": draw(st.lists(st.booleans(), min_size=4, max_size=4).filter(any)), "salt": draw(st.sampled_from(["s", "", "Tsalt"]))}


def t_dirfaults(shard, nshards, seed, ev, known, n=60):
    return core.hyp_drive(_dirfault_case(), check_dirfaults, n, seed, ev, known, check_name="dirfaults")


def t_long(shard, nshards, seed, ev, known, n4=6000, n6=1200):
    cases = [{"salt": ["s", "", "Tsalt", "_x"][k % 4], "n4": n4, "n6": n6, "start4": core.derive("l4", seed, k) & 0xFFFFFFFF, "start6": core.derive("l6", seed, k) << 64, "stride": (core.derive("st", seed, k) & 0xFFFFFF) | 0x10001, "B": [8, 0, 8, 32][k % 4]} for k in range(nshards) if k % nshards == shard]
    return core.enum_drive(cases, check_long, ev, known, "long")


def plan(tier):
    q = tier == "quick"
    tasks = [
        Task("lines", t_lines, shards=8 if q else 16, n=1500 if q else 40000),
        Task("files", t_files, shards=2 if q else 16, n=150 if q else 5000),
        Task("dirfaults", t_dirfaults, shards=1 if q else 8, n=80 if q else 1500),
        Task("long", t_long, shards=2 if q else 8, n4=6000 if q else 40000, n6=2000 if q else 8000),
    ]
    if not q:
        from ..fuzz import c14_fuzz

        tasks.append(Task("fuzz", c14_fuzz.t_fuzz, shards=8, runs=60000))
    return tasks
