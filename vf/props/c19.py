"""C19 - command-line contract: validation, precedence and option equivalences."""

import contextlib
import io
import os
import shutil
import sys
import tempfile

from hypothesis import strategies as st

from .. import core
from ..core import Finding, Task, guarded
from ..gen import ip as G

ID = "C19"
RULE = (
    "Hypothesis option sets (salt, -a/-p/-u, sensitive words, AS numbers, reserved words, --preserve-prefixes, "
    "--preserve-addresses incl. entries inside private space, --preserve-private-addresses, --preserve-host-bits incl. "
    "out-of-range values, dump file) around a small input tree with private and public addresses, secrets, words and "
    "numbers; every option independently placed on the command line, in a config file (key=value / key: value / bare "
    "flag), in both with the same value, or in both with conflicting values. Oracles: contradictory vectors (undo without "
    "salt, undo+anonymize, dump without -a, host bits outside 0..32, missing or empty -i / -o) raise ValueError or exit != 0 "
    "and leave the scratch area byte-for-byte unchanged; no anonymization option => returns, nothing written; all "
    "placements of the same settings give identical output trees and a conflict resolves to the command-line value; "
    "omitted defaults == explicit defaults (8 host bits, the seven class/private prefixes); --preserve-private-addresses == "
    "listing the three RFC 1918 networks (also merged with further addresses); main(argv) == anonymize_files with the "
    "denoted values; subprocess: a sample of the vectors through `python -m netconan.netconan` in a real process (exit "
    "status, nothing written on rejection, same tree as in-process). Non-trivial = vector with options both in the config file and on the command line, or a rejected "
    "combination; distinct by case."
)
ASSUMPTIONS = [
    "option values are restricted to what the config-file syntax expresses literally (no leading '[', quotes, ' #', ' ;', leading '-')",
    "valid vectors always carry a salt (otherwise output is random by design: C13 covers the reported salt)",
]

FILES = [
    ["r1.cfg", "hostname zorgon-core\n ip address 10.1.2.3 255.255.255.0\n ip address 10.200.7.9 255.255.255.0\npassword Secret12\nrouter bgp 65001\n neighbor 192.168.1.77 remote-as 123\n neighbor 8.8.4.4 remote-as 65001\nipv6 address 2001:db8::1/64\n"],
    ["sub/r2.cfg", "snmp-server community commZ ro\n ip address 172.16.9.1 255.255.0.0\n ip address 172.20.1.1 255.255.0.0\n ip address 192.168.200.5 255.255.255.0\n ip route 11.12.13.14 255.255.255.255 100.64.1.2\nhostname edge-mgmtx\npassword reservedword\n"],
]
DEFAULT_PREFIXES = ",".join(G.DEFAULT_PREFIXES)
RFC1918 = ",".join(G.RFC1918)


def _snapshot(d):
    out = {}
    for r, dirs, fs in os.walk(d):
        for x in dirs:
            out[os.path.relpath(os.path.join(r, x), d) + "/"] = None
        for f in fs:
            p = os.path.join(r, f)
            out[os.path.relpath(p, d)] = open(p, "rb").read()
    return out


def _tree(d):
    return {k: v for k, v in _snapshot(d).items() if v is not None} if os.path.isdir(d) else {}


def _run_main(argv):
    from netconan.netconan import main

    err = io.StringIO()
    with contextlib.redirect_stderr(err), contextlib.redirect_stdout(io.StringIO()):
        try:
            main(argv)
            return "ok", None
        except SystemExit as e:
            return ("ok" if e.code in (0, None) else "exit"), e.code
        except ValueError as e:
            return "valueerror", str(e)
        except Exception as e:  # noqa
            return "exception", e


OPTS = ["salt", "anon", "pwd", "undo", "words", "asns", "reserved", "prefixes", "addresses", "private", "hostbits", "dump"]
FLAGOPT = {"anon": ("-a", "anonymize-ips"), "pwd": ("-p", "anonymize-passwords"), "undo": ("-u", "undo"), "private": ("--preserve-private-addresses", "preserve-private-addresses")}
VALOPT = {"salt": ("-s", "salt"), "words": ("-w", "sensitive-words"), "asns": ("-n", "as-numbers"), "reserved": ("-r", "reserved-words"), "prefixes": ("--preserve-prefixes", "preserve-prefixes"), "addresses": ("--preserve-addresses", "preserve-addresses"), "hostbits": ("--preserve-host-bits", "preserve-host-bits"), "dump": ("-d", "dump-ip-map")}
OTHER = {"salt": "otherSalt", "words": "qqq,www", "asns": "7,9", "reserved": "zzz", "prefixes": "12.0.0.0/6", "addresses": "99.0.0.0/8", "hostbits": "3", "dump": None}


def build(settings, placement, d, tag, cfg_style=0, long_names=False, abbrev=False):
    """Return argv (and write the config file) for the settings under the given placement."""
    argv = ["-i", os.path.join(d, "in"), "-o", os.path.join(d, "out-" + tag)]
    cfg_lines = []
    for k in OPTS:
        v = settings.get(k)
        if v is False and k in FLAGOPT and placement.get(k) == "cfg-false":
            # an explicit false in the config file equals leaving the flag out
            cfg_lines.append(FLAGOPT[k][1] + ["=false", ": false", "=no"][cfg_style % 3])
        if v in (None, False):
            continue
        where = placement.get(k, "cli")
        if k in FLAGOPT:
            short, name = FLAGOPT[k]
            if where in ("cli", "both", "conflict"):
                argv.append(("--" + name) if long_names else short)
            if where in ("cfg", "both", "conflict"):
                cfg_lines.append([name + "=true", name + ": true", name][cfg_style % 3])
            continue
        short, name = VALOPT[k]
        use_abbrev = abbrev and k in ("words", "asns", "reserved", "hostbits")
        if use_abbrev:
            name = name[:-1]  # unambiguous abbreviation: accepted wherever the full name is
        val = os.path.join(d, "map-" + tag) if k == "dump" else str(v)
        if where in ("cli", "both", "conflict"):
            argv += [("--" + name) if (long_names or use_abbrev) else short, val]
        if where in ("cfg", "both"):
            cfg_lines.append([name + "=" + val, name + ": " + val, name + " = " + val][cfg_style % 3])
        elif where == "conflict" and OTHER.get(k):
            cfg_lines.append(name + "=" + OTHER[k])
    if cfg_lines:
        path = os.path.join(d, "conf-" + tag + ".cfg")
        with open(path, "w", encoding="utf-8") as fh:
            fh.write("; generated\n" + "\n".join(cfg_lines) + "\n")
        argv = ["-c", path] + argv
    return argv


def _library(settings, d, tag):
    from netconan.anonymize_files import anonymize_files

    addrs = settings["addresses"].split(",") if settings.get("addresses") else None
    if settings.get("private"):
        addrs = (addrs or []) + list(G.RFC1918)
    hb = 8 if settings.get("hostbits") is None else int(settings["hostbits"])
    anonymize_files(
        os.path.join(d, "in"),
        os.path.join(d, "out-" + tag),
        bool(settings.get("pwd")),
        bool(settings.get("anon")),
        salt=settings.get("salt"),
        dumpfile=os.path.join(d, "map-" + tag) if settings.get("dump") else None,
        sensitive_words=settings["words"].split(",") if settings.get("words") else None,
        undo_ip_anon=bool(settings.get("undo")),
        as_numbers=settings["asns"].split(",") if settings.get("asns") else None,
        reserved_words=settings["reserved"].split(",") if settings.get("reserved") else None,
        preserve_prefixes=settings["prefixes"].split(",") if settings.get("prefixes") else None,
        preserve_networks=addrs,
        preserve_suffix_v4=hb,
        preserve_suffix_v6=hb,
    )


def _setup(d):
    for rel, text in FILES:
        p = os.path.join(d, "in", rel)
        os.makedirs(os.path.dirname(p), exist_ok=True)
        with open(p, "w", encoding="utf-8", newline="") as fh:
            fh.write(text)


def _reject_argv(argv, kind):
    if kind == "reject:no-input":
        return [a for i, a in enumerate(argv) if not (a == "-i" or (i and argv[i - 1] == "-i"))]
    if kind == "reject:no-output":
        return [a for i, a in enumerate(argv) if not (a == "-o" or (i and argv[i - 1] == "-o"))]
    argv = list(argv)
    if kind == "reject:empty-input":
        argv[argv.index("-i") + 1] = ""
    elif kind == "reject:empty-output":
        argv[argv.index("-o") + 1] = ""
    return argv


def check_vector(case, ev):
    settings, placement, kind = case["settings"], case["placement"], case["kind"]
    d = tempfile.mkdtemp(prefix="vf-c19-")
    cwd = os.getcwd()
    try:
        os.chdir(d)  # anything written relative to the working directory lands in the scratch area
        _setup(d)
        ncfg = sum(1 for k, w in placement.items() if settings.get(k) not in (None, False) and w in ("cfg", "both", "conflict"))
        ncli = sum(1 for k in OPTS if settings.get(k) not in (None, False) and placement.get(k, "cli") in ("cli", "both", "conflict"))
        ev.case(case, kind != "valid" or (ncfg >= 1 and ncli >= 1), ["kind-" + kind.split(":")[0]] + (["conflict"] if "conflict" in placement.values() else []) + (["cfg-and-cli"] if ncfg and ncli else []))
        argv = build(settings, placement, d, "a", case.get("cfg_style", 0), case.get("long", False), bool(case.get("abbrev")))
        if kind.startswith("reject"):
            argv = _reject_argv(argv, kind)
            before = _snapshot(d)
            status, info = _run_main(argv)
            after = _snapshot(d)
            if status in ("ok",):
                return Finding("reject/accepted:" + kind.split(":")[1], "argv %r was accepted" % (argv,), case)
            if status == "exception":
                return core.exc_finding(info, case, "reject/")
            if before != after:
                new = sorted(set(after) - set(before))
                return Finding("reject/something-written-before-rejection:" + kind.split(":")[1], "argv %r rejected (%s) but created %r" % (argv, status, new), case)
            return None
        if kind == "none":
            before = _snapshot(d)
            status, info = _run_main(argv)
            if status != "ok":
                return Finding("none/not-accepted", "argv %r -> %s %r" % (argv, status, info), case)
            if _snapshot(d) != before:
                return Finding("none/something-written-without-anonymization-option", "argv %r" % (argv,), case)
            return None
        # valid vector: placement a, all-CLI b, library c, (+ variants)
        status, info = _run_main(argv)
        if status != "ok":
            if status == "exception":
                return core.exc_finding(info, case, "valid/")
            return Finding("valid/rejected", "argv %r -> %s %r (config %r)" % (argv, status, info, _cfg_text(d, "a")), case)
        outa = _tree(os.path.join(d, "out-a"))
        mapa = open(os.path.join(d, "map-a")).read() if settings.get("dump") else None
        status, info = _run_main(build(settings, {}, d, "b", long_names=not case.get("long", False)))
        if status != "ok":
            return Finding("valid/rejected", "all-CLI vector rejected: %s %r" % (status, info), case)
        outb = _tree(os.path.join(d, "out-b"))
        if outa != outb:
            k = next(k for k in outb if outa.get(k) != outb[k])
            conf = "conflict" in placement.values()
            return Finding(
                "placement/%s" % ("config-value-overrides-command-line" if conf else "config-file-differs-from-command-line"),
                "settings %r placement %r (config: %r): file %s %r vs all on the command line %r" % (settings, placement, _cfg_text(d, "a"), k, (outa.get(k) or b"")[:300], outb[k][:300]),
                case,
            )
        _, exc = guarded(_library, settings, d, "c")
        if exc is not None:
            return core.exc_finding(exc, case, "library/")
        outc = _tree(os.path.join(d, "out-c"))
        if outb != outc:
            k = next(k for k in outc if outb.get(k) != outc[k])
            return Finding("library/cli-differs-from-anonymize_files", "settings %r: file %s CLI %r library %r" % (settings, k, (outb.get(k) or b"")[:300], outc[k][:300]), case)
        if settings.get("dump"):
            mapc = open(os.path.join(d, "map-c")).read()
            if sorted(mapa.split("\n")) != sorted(mapc.split("\n")):
                return Finding("library/dump-differs", "dump via CLI vs library differ", case)
        # explicit defaults
        s2 = dict(settings)
        changed = False
        if s2.get("hostbits") is None:
            s2["hostbits"] = "8"
            changed = True
        if s2.get("prefixes") is None:
            s2["prefixes"] = DEFAULT_PREFIXES
            changed = True
        if changed:
            status, info = _run_main(build(s2, {}, d, "d"))
            if status != "ok" or _tree(os.path.join(d, "out-d")) != outb:
                return Finding("defaults/explicit-default-differs-from-omitted", "settings %r vs %r: %s" % (settings, s2, status), case)
        # --preserve-private-addresses == the three RFC 1918 networks
        if settings.get("private"):
            s3 = dict(settings, private=False, addresses=(settings["addresses"] + "," if settings.get("addresses") else "") + RFC1918)
            status, info = _run_main(build(s3, {}, d, "e"))
            oute = _tree(os.path.join(d, "out-e"))
            if status != "ok" or oute != outb:
                k = next((k for k in oute if outb.get(k) != oute[k]), "?")
                return Finding("private/flag-differs-from-listing-rfc1918", "settings %r: file %s with the flag %r, with the explicit list %r" % (settings, k, (outb.get(k) or b"")[:300], (oute.get(k) or b"")[:300]), case)
    finally:
        os.chdir(cwd)
        shutil.rmtree(d, ignore_errors=True)
    return None


def _cfg_text(d, tag):
    p = os.path.join(d, "conf-" + tag + ".cfg")
    return open(p).read() if os.path.exists(p) else None


def check_subprocess(case, ev):
    """The same vector through a real interpreter process (`python -m netconan.netconan`): exit
    status 0 / != 0 as for the in-process call, and identical output tree."""
    import subprocess

    settings, placement, kind = case["settings"], case["placement"], case["kind"]
    d = tempfile.mkdtemp(prefix="vf-c19s-")
    try:
        _setup(d)
        argv = build(settings, placement, d, "a", case.get("cfg_style", 0), case.get("long", False))
        if kind.startswith("reject"):
            argv = _reject_argv(argv, kind)
        env = dict(os.environ, PYTHONPATH=core.REPO, PYTHONDONTWRITEBYTECODE="1", PYTHONUTF8="1")
        p = subprocess.run([sys.executable, "-m", "netconan.netconan"] + argv, capture_output=True, text=True, env=env, cwd=d, timeout=300)
        outa = _tree(os.path.join(d, "out-a"))
        ev.case(case, True, ["kind-" + kind.split(":")[0]])
        if kind.startswith("reject"):
            if p.returncode == 0:
                return Finding("subprocess/rejected-vector-exits-0:" + kind.split(":")[1], "argv %r: exit 0, stderr %r" % (argv, p.stderr[-300:]), case)
            if outa:
                return Finding("subprocess/something-written-before-rejection:" + kind.split(":")[1], "argv %r created %r" % (argv, sorted(outa)), case)
            return None
        if p.returncode != 0:
            return Finding("subprocess/valid-vector-fails", "argv %r: exit %d, stderr %r" % (argv, p.returncode, p.stderr[-400:]), case)
        if kind == "none":
            return Finding("subprocess/something-written-without-anonymization-option", "%r" % sorted(outa), case) if outa else None
        argv2 = build(settings, placement, d, "b", case.get("cfg_style", 0), case.get("long", False))
        status, info = _run_main(argv2)
        outb = _tree(os.path.join(d, "out-b"))
        if status != "ok" or outa != outb:
            return Finding("subprocess/differs-from-in-process-main", "argv %r: in-process %s, trees equal: %r" % (argv, status, outa == outb), case)
    finally:
        shutil.rmtree(d, ignore_errors=True)
    return None


REPLAY = {"vectors": check_vector, "subprocess": check_subprocess}

_salts = st.text(alphabet="abcXYZ019_", min_size=1, max_size=8)
_addr_choices = ["10.1.0.0/16", "192.168.1.77", "8.8.0.0/16", "172.16.9.0/24", "100.64.0.0/10", "11.12.13.14", "10.0.0.0/8"]
_prefix_choices = ["10.0.0.0/8", "12.0.0.0/6", "0.0.0.0/1", "128.0.0.0/1", "172.16.0.0/12", "192.168.0.0/16", "8.0.0.0/7", "192.168.200.0/24"]


@st.composite
def _case(draw):
    kind = draw(st.sampled_from(["valid"] * 6 + ["none", "reject:undo-without-salt", "reject:undo-and-anonymize", "reject:dump-without-a", "reject:hostbits", "reject:no-input", "reject:no-output", "reject:empty-input", "reject:empty-output"]))
    s = {
        "salt": draw(_salts),
        "anon": draw(st.booleans()),
        "pwd": draw(st.booleans()),
        "undo": False,
        "words": draw(st.one_of(st.none(), st.sampled_from(["zorgon", "zorgon,mgmtx", "core,edge"]))),
        "asns": draw(st.one_of(st.none(), st.sampled_from(["65001", "65001,123", "123"]))),
        "reserved": draw(st.one_of(st.none(), st.sampled_from(["reservedword", "Secret12,commZ", "zorgon-core"]))),
        "prefixes": draw(st.one_of(st.none(), st.lists(st.sampled_from(_prefix_choices), min_size=1, max_size=3, unique=True).map(",".join))),
        "addresses": draw(st.one_of(st.none(), st.lists(st.sampled_from(_addr_choices), min_size=1, max_size=3, unique=True).map(",".join))),
        "private": draw(st.booleans()),
        "hostbits": draw(st.one_of(st.none(), st.sampled_from(["0", "8", "32", "1", "24"]), st.integers(0, 32).map(str))),
        "dump": False,
    }
    if kind == "valid":
        if draw(st.integers(0, 3)) == 0:
            s["undo"], s["anon"] = True, False
        if not (s["anon"] or s["pwd"] or s["undo"] or s["words"] or s["asns"]):
            s["anon"] = True
        if s["anon"] and draw(st.booleans()):
            s["dump"] = True
    elif kind == "none":
        s.update(anon=False, pwd=False, undo=False, words=None, asns=None, dump=False)
    elif kind == "reject:undo-without-salt":
        s.update(undo=True, anon=False, salt=None)
    elif kind == "reject:undo-and-anonymize":
        s.update(undo=True, anon=True)
    elif kind == "reject:dump-without-a":
        s.update(dump=True, anon=False, undo=draw(st.booleans()))
        if not (s["pwd"] or s["words"] or s["asns"] or s["undo"]):
            s["pwd"] = True
    elif kind == "reject:hostbits":
        s["hostbits"] = str(draw(st.sampled_from([-5, -1, 33, 40, 128])))
        s["anon"] = True
    else:
        s["anon"] = True
    placement = {}
    for k in OPTS:
        if s.get(k) is False and k in FLAGOPT and kind in ("valid", "none") and draw(st.integers(0, 3)) == 0:
            placement[k] = "cfg-false"
        if s.get(k) in (None, False):
            continue
        w = draw(st.sampled_from(["cli", "cli", "cfg", "cfg", "both", "conflict"]))
        if w == "conflict" and (k in FLAGOPT or OTHER.get(k) is None or kind != "valid"):
            w = "both"
        if kind == "reject:hostbits" and k == "hostbits" and s["hostbits"].startswith("-") and w != "cfg":
            w = draw(st.sampled_from(["cli", "cfg"]))
        placement[k] = w
    return {"settings": s, "placement": placement, "kind": kind, "cfg_style": draw(st.integers(0, 2)), "long": draw(st.booleans()), "abbrev": draw(st.integers(0, 3)) == 0}


def t_vectors(shard, nshards, seed, ev, known, n=50):
    return core.hyp_drive(_case(), check_vector, n, seed, ev, known, check_name="vectors", max_keys=8)


def t_subprocess(shard, nshards, seed, ev, known, n=5):
    cases = core.collect_cases(_case().filter(lambda c: c["kind"] not in ("reject:empty-input", "reject:empty-output")), n + 2, seed)[2:]
    return core.enum_drive(cases, check_subprocess, ev, known, "subprocess")


def plan(tier):
    q = tier == "quick"
    return [
        Task("vectors", t_vectors, shards=8 if q else 16, n=400 if q else 3000),
        Task("subprocess", t_subprocess, shards=4 if q else 16, n=5 if q else 40),
    ]
