"""C10 - listed sensitive words never survive; reserved words always do."""

import re

from hypothesis import strategies as st

from .. import core
from ..core import Finding, Task, guarded

ID = "C10"
RULE = (
    "words: Hypothesis (word list of 1-8 words over letters/digits/-/_ starting and ending with a letter outside a-f, "
    "no run of six hex digits, mixed case, deliberately overlapping: prefix/suffix/infix of each other; user reserved "
    "words in lower and mixed case chosen to contain listed words; salt; lines embedding occurrences in every letter "
    "case, glued to other text, repeated, with punctuation attached, and inside tokens equal to built-in/user reserved "
    "words) through SensitiveWordAnonymizer.anonymize and FileAnonymizer.anonymize_io. Oracles: case-insensitive survival "
    "scan (a survivor must lie inside a whitespace-delimited token equal to a reserved word), reserved tokens unchanged, for "
    "lists without overlaps the exact expected token structure with 6-hex pseudonyms that are a function of (salt, matched "
    "text) within the run, in a second instance and under another word list. secrets: a secret value equal to a reserved "
    "word (built-in or user addition, any case as given) is left alone by the password stage. hashseeds: a batch of cases "
    "re-run in fresh interpreters with PYTHONHASHSEED 0..7, outputs must coincide. Non-trivial = line with an occurrence "
    "glued inside a longer string or in another case than listed, or an overlapping list; distinct by case."
)
ASSUMPTIONS = [
    "word lists follow the property's domain (start/end with a letter outside a-f, no six-hex-digit run), so a pseudonym can never spell a listed word",
    "token = maximal run of non-white-space characters (str.split)",
]

_HEX6 = re.compile(r"[0-9a-fA-F]{6}")


def _builtin():
    return core.builtin_reserved()


def overlapping(ws):
    l = [w.lower() for w in ws]
    for a in l:
        for b in l:
            if a != b and a in b:
                return True
            for k in range(1, min(len(a), len(b))):
                if a[-k:] == b[:k] and (a != b or k < len(a)):
                    return True
    return False


def occurrences(token_lower, words_lower):
    """Leftmost non-overlapping occurrences [(start, end)] of any listed word."""
    out = []
    i = 0
    while i < len(token_lower):
        best = None
        for w in words_lower:
            if token_lower.startswith(w, i) and (best is None or len(w) > len(best)):
                best = w
        if best:
            out.append((i, i + len(best)))
            i += len(best)
        else:
            i += 1
    return out


def _run(case):
    """Output of the word stage for the case (used in-process and by the hash-seed workers)."""
    from netconan.sensitive_item_removal import SensitiveWordAnonymizer

    words, user, salt, lines, via = case["words"], case["reserved"], case["salt"], case["lines"], case["via"]
    if via == "direct":
        reserved = set(_builtin()) | set(user)
        an = SensitiveWordAnonymizer(list(words), salt, reserved)
        return [an.anonymize(l) for l in lines]
    if via == "cli" and (salt.startswith("-") or any("," in w or w.startswith("-") for w in list(words) + list(user))):
        via = "file"  # not expressible as separate command-line arguments
    if via == "cli":
        import os
        import shutil
        import tempfile

        from netconan.netconan import main

        d = tempfile.mkdtemp(prefix="vf-c10-")
        try:
            with open(os.path.join(d, "in.cfg"), "w", encoding="utf-8", newline="") as fh:
                fh.write("".join(l + "\n" for l in lines))
            main(["-i", os.path.join(d, "in.cfg"), "-o", os.path.join(d, "out.cfg"), "-s", salt, "-w", ",".join(words)] + (["-r", ",".join(user)] if user else []))
            return open(os.path.join(d, "out.cfg"), "rb").read().decode("utf-8", "replace").split("\n")[:-1]
        finally:
            shutil.rmtree(d, ignore_errors=True)
    if via == "file":
        import os
        import shutil
        import tempfile

        from netconan.anonymize_files import anonymize_files

        d = tempfile.mkdtemp(prefix="vf-c10-")
        try:
            with open(os.path.join(d, "in.cfg"), "w", encoding="utf-8", newline="") as fh:
                fh.write("".join(l + "\n" for l in lines))
            anonymize_files(os.path.join(d, "in.cfg"), os.path.join(d, "out.cfg"), False, False, salt=salt, sensitive_words=list(words), reserved_words=list(user) if user else None)
            return open(os.path.join(d, "out.cfg"), "rb").read().decode("utf-8", "replace").split("\n")[:-1]
        finally:
            shutil.rmtree(d, ignore_errors=True)
    from netconan.anonymize_files import FileAnonymizer

    # "undo": the address stage runs in the undo direction in the same run (-u -w); the lines hold no addresses
    fa = FileAnonymizer(anon_pwd=bool(case.get("pwd")), anon_ip=False, undo_ip_anon=bool(case.get("undo")), salt=salt, sensitive_words=list(words), reserved_words=list(user) if user else None)
    out = core.run_io(fa, "".join(l + "\n" for l in lines), bool(case.get("nonl")))
    return out.split("\n")[:-1]


def worker_run(case):
    return _run(case)


def check_words(case, ev):
    words, user, salt, lines = case["words"], case["reserved"], case["salt"], case["lines"]
    outs, exc = guarded(_run, case)
    if exc is not None:
        return core.exc_finding(exc, case, "words/")
    wl = sorted({w.lower() for w in words}, key=lambda w: (-len(w), w))
    reserved_l = {w.lower() for w in _builtin()} | {w.lower() for w in user}
    reserved_exact = set(_builtin()) | set(user)
    ov = overlapping(words)
    nt = ov
    cls = ["via-" + case["via"]] + (["overlapping-list"] if ov else []) + (["user-reserved"] if user else []) + (["with-password-stage"] if case.get("pwd") else []) + (["with-address-undo"] if case.get("undo") else [])
    if len(outs) != len(lines):
        return Finding("words/line-count", "%d lines in, %d out" % (len(lines), len(outs)), case)
    f = None
    pmap = {}
    for line, out in zip(lines, outs):
        itoks, otoks = line.split(), out.split()
        # (1) survival
        for m in re.finditer(r"\S+", out):
            tl = m.group(0).lower()
            if tl in reserved_l:
                continue
            for w in wl:
                if w in tl and f is None:
                    f = Finding(
                        "words/survivor:%s" % ("overlapping-list" if ov else "plain-list"),
                        "words=%r reserved=%r salt=%r line %r -> %r: %r survives in token %r" % (words, user, salt, line, out, w, m.group(0)),
                        case,
                    )
        if case.get("pwd"):
            continue  # with the password stage on only the survival oracle applies (secrets change tokens)
        if len(itoks) != len(otoks):
            if f is None:
                f = Finding("words/token-count-changed", "line %r -> %r" % (line, out), case)
            continue
        for ti, to in zip(itoks, otoks):
            occ = occurrences(ti.lower(), wl)
            if occ:
                if any(ti[a:b] not in words for a, b in occ) or (occ[0][0] > 0 or occ[-1][1] < len(ti)):
                    nt = True
            # (2) reserved token untouched
            if ti in reserved_exact:
                cls.append("reserved-token" + ("-with-listed-word" if occ else ""))
                if to != ti and f is None:
                    f = Finding("words/reserved-token-changed:%s" % ("user" if ti in user else "builtin"), "reserved token %r became %r (words=%r, reserved=%r)" % (ti, to, words, user), case)
                continue
            if ti.lower() in reserved_l:
                continue  # equal to a reserved word up to case: either treatment is acceptable
            if not occ:
                if to != ti and f is None:
                    f = Finding("words/token-without-listed-word-changed", "token %r became %r (words=%r)" % (ti, to, words), case)
                continue
            cls.append("occurrence")
            if ov:
                continue
            # (3) exact structure for non-overlapping lists
            exp_len = len(ti) - sum(b - a for a, b in occ) + 6 * len(occ)
            ok = len(to) == exp_len
            pos_i = pos_o = 0
            if ok:
                for a, b in occ:
                    lit = ti[pos_i:a]
                    if to[pos_o : pos_o + len(lit)] != lit:
                        ok = False
                        break
                    pos_o += len(lit)
                    p = to[pos_o : pos_o + 6]
                    if not re.fullmatch(r"[0-9a-f]{6}", p):
                        ok = False
                        break
                    txt = ti[a:b]
                    if pmap.setdefault(txt, p) != p and f is None:
                        f = Finding("words/pseudonym-not-a-function-of-matched-text", "%r -> %r and %r (salt %r)" % (txt, pmap[txt], p, salt), case)
                    pos_o += 6
                    pos_i = b
                if ok and to[pos_o:] != ti[pos_i:]:
                    ok = False
            if not ok and f is None:
                f = Finding("words/unexpected-replacement-structure", "token %r became %r, expected each of %r replaced by six hex digits (words=%r)" % (ti, to, [ti[a:b] for a, b in occ], words), case)
    ev.case(case, nt, cls)
    if f is not None:
        return f
    # pseudonym depends only on salt and matched text: second instance, other list composition
    if pmap and case["via"] == "direct":
        from netconan.sensitive_item_removal import SensitiveWordAnonymizer

        for txt, p in list(pmap.items())[:4]:
            other, exc = guarded(lambda: SensitiveWordAnonymizer([txt, "qqzzqq"], salt, set()).anonymize("x " + txt))
            if exc is not None:
                return core.exc_finding(exc, case, "words/")
            if other != "x " + p:
                return Finding("words/pseudonym-depends-on-list-or-position", "salt=%r: %r -> %r in the run, %r with the list [%r,'qqzzqq']" % (salt, txt, p, other, txt), case)
    return None


def check_secret_reserved(case, ev):
    """case: {user: [words], value, form, salt}: the password stage must leave reserved values alone."""
    from netconan.anonymize_files import FileAnonymizer

    user, value, salt = case["reserved"], case["value"], case["salt"]
    line = case["form"].replace("{}", value)
    slot = None
    if case.get("sform"):
        # any positional single-secret line form of the generators' table, with its trailing options
        from ..gen import secrets as S

        fid, hi, ti = case["sform"]
        line, spans = S.render(S.FORM_BY_ID[fid], hi, ti, [value])
        slot = len(line[: spans[0][0]].split()) - (1 if line[: spans[0][0]] and not line[spans[0][0] - 1].isspace() else 0)
    fa, exc = guarded(lambda: FileAnonymizer(anon_pwd=True, anon_ip=False, salt=salt, reserved_words=list(user) if user else None))
    if exc is not None:
        return core.exc_finding(exc, case, "ctor/")
    for pl in case.get("prelude", []):
        # earlier lines of the same run (e.g. a $9$ string whose plaintext is the reserved word)
        _, exc = guarded(core.run_io, fa, pl + "\n")
        if exc is not None:
            return core.exc_finding(exc, case, "secrets/")
    out, exc = guarded(core.run_io, fa, line + "\n")
    if exc is not None:
        return core.exc_finding(exc, case, "secrets/")
    is_res = value in _builtin() or value in user
    ev.case(case, is_res and value in user, ["user-reserved" if value in user else "builtin-reserved" if is_res else "not-reserved", "mixed-case" if value.lower() != value else "lower"] + (["after-earlier-lines"] if case.get("prelude") else []) + (["table-form-with-options" if S.FORM_BY_ID[case["sform"][0]].trails[case["sform"][2]] else "table-form"] if case.get("sform") else []))
    if slot is not None:
        ti_, to_ = line.split(), out.split()
        if is_res and (len(to_) <= slot or to_[slot] != ti_[slot]):
            return Finding("secrets/reserved-value-replaced:%s:in-line-with-options" % ("user" if value in user else "builtin"), "reserved=%r: %r -> %r (token %d)" % (user, line, out, slot), case)
        if not is_res and len(to_) > slot and to_[slot] == ti_[slot] and "SCRUBBED" not in out:
            return Finding("secrets/non-reserved-value-kept", "reserved=%r: %r -> %r" % (user, line, out), case)
        return None
    if is_res and out != line + "\n":
        return Finding("secrets/reserved-value-replaced:%s" % ("user" if value in user else "builtin"), "reserved=%r: %r -> %r" % (user, line, out), case)
    if not is_res and value in out and not value.isdigit():
        return Finding("secrets/non-reserved-value-kept", "reserved=%r: %r -> %r" % (user, line, out), case)
    return None


def check_hashseeds(case, ev):
    """case: {cases: [word cases]}: outputs in fresh interpreters with different hash seeds coincide."""
    cases = case["cases"]
    ref = None
    for hs in case.get("seeds", [0, 1, 2, 3]):
        res = core.run_worker("c10", "worker_run", cases, hs)
        if ref is None:
            ref = res
            continue
        for c, a, b in zip(cases, ref, res):
            if a != b:
                ev.bulk(len(cases), len(cases))
                return Finding("hashseed/output-differs:%s" % ("overlapping-list" if overlapping(c["words"]) else "plain-list"), "words=%r lines=%r: %r with PYTHONHASHSEED=%s vs %r with 0" % (c["words"], c["lines"], b, hs, a), {"cases": [c], "seeds": [0, hs]})
    # the same batch in reverse order in another fresh interpreter: a pseudonym is a function of
    # (salt, matched text) only, so the order in which anonymizers are created cannot matter
    rev = core.run_worker("c10", "worker_run", cases[::-1], 0)[::-1]
    for c, a, b in zip(cases, ref, rev):
        if a != b:
            ev.bulk(len(cases), len(cases))
            return Finding("hashseed/output-depends-on-order-of-anonymizers-in-the-process", "words=%r salt=%r lines=%r: %r when the batch runs forwards, %r backwards" % (c["words"], c["salt"], c["lines"], a, b), {"cases": cases, "seeds": [0]})
    ev.bulk(len(cases), sum(1 for c in cases if overlapping(c["words"])), sample=cases[0] if cases else None, classes={"overlapping-list": sum(1 for c in cases if overlapping(c["words"]))})
    return None


REPLAY = {"words": check_words, "secrets": check_secret_reserved, "hashseeds": check_hashseeds}

# ---------------------------------------------------------------- generators

_edge = st.sampled_from("ghijklmnopqrstuvwxyzGHIJKLMNOPQRSTUVWXYZ")
_inner = st.text(alphabet="abcxyzABQ019-_", max_size=5).filter(lambda s: not _HEX6.search(s))
_word = st.one_of(st.builds(lambda a, m, b: a + m + b, _edge, _inner, _edge), st.sampled_from(["tor", "Toronto", "torr", "intranet", "net", "zorg", "mgmt", "Kwyjibo", "lab-x", "s_t", "m\u00fcller", "Z\u00fcrich", "\u0142\u00f3d\u017a", "stra\u00dfen"]))  # all start and end with a letter outside a-f


@st.composite
def _wordlist(draw):
    ws = draw(st.lists(_word, min_size=1, max_size=6, unique_by=lambda w: w.lower()))
    for _ in range(draw(st.integers(0, 2))):
        base = draw(st.sampled_from(ws))
        kind = draw(st.integers(0, 3))
        e = draw(_edge)
        new = [base + e, e + base, base[: max(1, len(base) - 1)] if base[: max(1, len(base) - 1)][-1:].lower() not in "abcdef0123456789-_" else base + e, base[-2:] + e][kind]
        if len(new) >= 2 and new[0].lower() not in "abcdef0123456789-_" and new[-1].lower() not in "abcdef0123456789-_" and not _HEX6.search(new) and new.lower() not in [w.lower() for w in ws]:
            ws.append(new)
    return ws


_filler = st.text(alphabet="abz019.-_/:,;\"'()[]{}=", max_size=5)
_ws = st.sampled_from([" ", " ", "  ", "\t"])


@st.composite
def _case(draw):
    words = draw(_wordlist())
    builtin = sorted(_builtin())
    # built-in reserved words that contain a listed word, if any
    conflicting = [r for r in builtin if any(w.lower() in r for w in words)][:30]
    user = []
    for _ in range(draw(st.integers(0, 2))):
        w = draw(st.sampled_from(words))
        u = draw(st.sampled_from([w + "X", "Core" + w, w.upper() + "rtr", w.lower() + "-gw", draw(_edge) + w + draw(_edge)]))
        user.append(u)
    lines = []
    for _ in range(draw(st.integers(1, 3))):
        toks = []
        for _ in range(draw(st.integers(1, 5))):
            kind = draw(st.integers(0, 6))
            w = draw(st.sampled_from(words))
            wc = draw(st.sampled_from([w, w.lower(), w.upper(), w.swapcase(), w.capitalize()]))
            if kind <= 2:
                toks.append(draw(_filler) + wc + draw(_filler))
            elif kind == 3:
                toks.append(wc + draw(_filler) + draw(st.sampled_from([wc, w])))
            elif kind == 4 and (conflicting or user):
                r = draw(st.sampled_from(conflicting + user))
                toks.append(draw(st.sampled_from([r, r, r + ";", '"' + r + '"', r.upper(), "{" + r + "}"])))
            elif kind == 5:
                toks.append(draw(st.sampled_from(["interface", "description", "search", "password", "1", "the", "router"])))
            else:
                toks.append(wc)
        lead = draw(st.sampled_from(["", " ", "   "]))
        lines.append(lead + "".join(t + draw(_ws) for t in toks).rstrip(" \t") + draw(st.sampled_from(["", "", " "])))
    via = draw(st.sampled_from(["direct", "direct", "io", "file", "cli"]))
    pwd = False
    if via == "io" and draw(st.integers(0, 2)) == 0:
        # -p and -w together: listed words in front of (or behind) recognised secret forms
        pwd = True
        tails = ["cable shared-secret Zq9xWv", "wpa-psk ascii 7 ABCDEF0123", "ldap-login-password Pq7zz", "key-string 7 0822455D0A16", "password Hx9Gk2Lm", "snmp-server community Qq7Zz ro"]
        lines = [l.rstrip() + " " + draw(st.sampled_from(tails)) for l in lines]
    return {"words": words, "reserved": user, "salt": draw(st.one_of(st.text(max_size=5), st.sampled_from(["", "s"]))), "lines": lines, "via": via, "pwd": pwd, "undo": via == "io" and not any(ch in l for l in lines for ch in ":.") and draw(st.booleans()), "nonl": draw(st.integers(0, 3)) == 0}


_FORMS = ["password {}", "snmp-server community {}", "enable secret {}", " key {}", "username admin password {}", "set snmp community {}"]


@st.composite
def _secret_case(draw):
    builtin = sorted(_builtin())
    user = draw(st.lists(st.sampled_from(["MgmtVlan", "labkey", "CoreRtr", "zorgon", "Public1", "RO-string", "x_Y_z"]), max_size=3, unique=True))
    pick = draw(st.integers(0, 3))
    if pick == 0 and user:
        value = draw(st.sampled_from(user))
    elif pick == 1:
        value = draw(st.sampled_from([b for b in builtin if b.isalnum() and not b.isdigit()][:400]))
    elif pick == 2 and user:
        value = draw(st.sampled_from(user)).lower() + "q"
    else:
        value = draw(st.sampled_from(["Hx9Gk2Lm", "RemoveMe", "zorgonq"]))
    prelude = []
    if draw(st.integers(0, 2)) == 0 and all(ord(ch) < 256 for ch in value):
        from ..gen import secrets as S

        k = draw(st.integers(0, 2))
        enc = draw(S.j9_value(plain=value, damaged=False))
        prelude.append(["set password " + enc, 'set system login user x authentication encrypted-password "' + enc + '"', "snmp-server community " + value + "x ro"][k])
        if draw(st.booleans()):
            prelude.append("password someOtherSecret9")
    c = {"reserved": user, "value": value, "form": draw(st.sampled_from(_FORMS)), "salt": draw(st.sampled_from(["", "s", "Tsalt"])), "prelude": prelude}
    if draw(st.booleans()):
        from ..gen import secrets as S

        forms = [f for f in S.POS_FORMS if f.slots == 1 and "text" in f.classes and not f.text_kw and f.reject is None]
        f = draw(st.sampled_from(forms))
        nz = [i for i, t in enumerate(f.trails) if t] or [0]
        c["sform"] = [f.id, draw(st.integers(0, len(f.heads) - 1)), draw(st.sampled_from(nz)) if draw(st.integers(0, 2)) else draw(st.integers(0, len(f.trails) - 1))]
        c["classes"] = ["form-" + f.id]
    return c


def t_words(shard, nshards, seed, ev, known, n=1000):
    return core.hyp_drive(_case(), check_words, n, seed, ev, known, check_name="words")


def t_secrets(shard, nshards, seed, ev, known, n=300):
    return core.hyp_drive(_secret_case(), check_secret_reserved, n, seed, ev, known, check_name="secrets")


def t_hashseeds(shard, nshards, seed, ev, known, n=150, seeds=(0, 1, 2, 3)):
    cases = core.collect_cases(_case(), n, seed)
    f = check_hashseeds({"cases": cases, "seeds": list(seeds)}, ev)
    if f is None or f.key in known:
        if f is not None:
            ev.excluded_known[f.key] += 1
        return []
    f.check = "hashseeds"
    return [f]


def plan(tier):
    q = tier == "quick"
    return [
        Task("words", t_words, shards=4 if q else 16, n=1200 if q else 15000),
        Task("secrets", t_secrets, shards=4 if q else 8, n=1000 if q else 8000),
        Task("hashseeds", t_hashseeds, shards=2 if q else 16, n=150 if q else 2000, seeds=(0, 1, 2, 3) if q else (0, 1, 2, 3, 4, 5, 6, 7, "random")),
    ]
