"""C11 - AS numbers: block-preserving, whole-number-only, keyed replacement."""

from hypothesis import strategies as st

from .. import core
from ..core import Finding, Task, guarded

ID = "C11"
RULE = (
    "lines: Hypothesis (list of 1-6 AS numbers weighted to every block boundary and its neighbours and to numbers "
    "that are prefixes/suffixes of each other, salt, line placing listed numbers standalone, next to any ASCII "
    "punctuation, one character apart from each other, at line start/end, embedded in longer digit runs, with leading "
    "zeros) through AsNumberAnonymizer/anonymize_as_numbers and FileAnonymizer.anonymize_io; oracle: independent scanner of "
    "maximal ASCII digit runs - a run equal to a listed number becomes a number of the same block, the same for that "
    "(salt, number) at every position, in a fresh instance and in an instance built from another list; everything else "
    "unchanged. grid: every boundary number x many salts (block predicate + agreement between instances). Non-trivial = "
    "listed number adjacent to punctuation/another listed number or embedded in a longer run, or a boundary number; "
    "distinct by case."
)
ASSUMPTIONS = [
    "text adjacent to numbers contains no non-ASCII decimal digits (Python's \\D treats them as digits; not specified)",
    "lists are non-empty, canonical decimal strings in 0..4294967295 without duplicates, as the CLI produces them",
]

BLOCKS = [(0, 64511), (64512, 65535), (65536, 4199999999), (4200000000, 4294967295)]
BOUNDARY = [0, 1, 64510, 64511, 64512, 64513, 65534, 65535, 65536, 65537, 4199999998, 4199999999, 4200000000, 4200000001, 4294967294, 4294967295]
RELATED = [6, 65, 650, 6500, 65001, 650010, 1, 10, 100, 12, 123, 23, 64, 645, 5, 55, 555, 65546, 131082, 65537, 655370]


def block(n):
    for i, (a, b) in enumerate(BLOCKS):
        if a <= n <= b:
            return i
    return None


def digit_runs(line):
    out = []
    i = 0
    while i < len(line):
        j = i
        if line[i] in "0123456789":
            while j < len(line) and line[j] in "0123456789":
                j += 1
            out.append((True, line[i:j]))
        else:
            while j < len(line) and line[j] not in "0123456789":
                j += 1
            out.append((False, line[i:j]))
        i = j
    return out


def check_line(case, ev):
    from netconan.sensitive_item_removal import AsNumberAnonymizer, anonymize_as_numbers

    nums, line, salt, via = case["nums"], case["line"], case["salt"], case.get("via", "direct")
    before = None
    if case.get("between"):
        # earlier in the process: an anonymizer with the same salt answers, then a construction with another
        # salt is refused half-way (an invalid entry behind valid ones); the answers must not change
        an0, exc = guarded(AsNumberAnonymizer, list(nums), salt)
        if exc is not None:
            return core.exc_finding(exc, case, "ctor/")
        before = {n: an0.anonymize(n) for n in nums}
        guarded(AsNumberAnonymizer, list(nums) + [case["between"]], salt + "~other")
    an, exc = guarded(AsNumberAnonymizer, list(nums), salt)
    if exc is not None:
        return core.exc_finding(exc, case, "ctor/")
    if via == "direct":
        out, exc = guarded(anonymize_as_numbers, an, line)
    elif via in ("cli-n", "cli-an", "cli-un"):
        # through the command line: -n alone, with -a, with -u.  With an address option the AS oracle is
        # applied between the output of the run without -n (trusted here; C01-C06 judge it) and with it
        import os
        import shutil
        import tempfile

        from netconan.netconan import main

        salt = salt_ = salt if salt and not salt.startswith("-") else "s" + salt
        an, exc = guarded(AsNumberAnonymizer, list(nums), salt_)
        if exc is not None:
            return core.exc_finding(exc, case, "ctor/")
        d = tempfile.mkdtemp(prefix="vf-c11-")
        try:
            with open(os.path.join(d, "in.cfg"), "w", encoding="utf-8", newline="") as fh:
                fh.write(line + "\n")
            flag = {"cli-n": [], "cli-an": ["-a"], "cli-un": ["-u"]}[via]
            base = None
            if flag:
                _, exc = guarded(main, ["-i", os.path.join(d, "in.cfg"), "-o", os.path.join(d, "base.cfg"), "-s", salt_] + flag)
                if exc is not None:
                    return core.exc_finding(exc, case, "main/")
                base = open(os.path.join(d, "base.cfg"), encoding="utf-8", newline="").read()
            _, exc = guarded(main, ["-i", os.path.join(d, "in.cfg"), "-o", os.path.join(d, "out.cfg"), "-s", salt_, "-n", ",".join(nums)] + flag)
            if exc is None:
                out = open(os.path.join(d, "out.cfg"), encoding="utf-8", newline="").read()
                out = out[:-1] if out.endswith("\n") else out
                if base is not None:
                    line = base[:-1] if base.endswith("\n") else base
        finally:
            shutil.rmtree(d, ignore_errors=True)
    elif via == "io-pwd":
        # password anonymization switched on as well: the AS oracle is applied between the output of
        # a passwords-only anonymizer (trusted here; C07-C09 judge it) and the combined output
        from netconan.anonymize_files import FileAnonymizer

        base, exc = guarded(lambda: core.run_io(FileAnonymizer(anon_pwd=True, anon_ip=False, salt=salt), line + "\n"))
        if exc is not None:
            return core.exc_finding(exc, case, "ctor/")
        out, exc = guarded(lambda: core.run_io(FileAnonymizer(anon_pwd=True, anon_ip=False, salt=salt, as_numbers=list(nums)), line + "\n"))
        if exc is None:
            line = base[:-1] if base.endswith("\n") else base
            out = out[:-1] if out.endswith("\n") else out
    else:
        from netconan.anonymize_files import FileAnonymizer

        # "reserved": user reserved words (-r) that are words of this very line - they govern the word and
        # secret stages only, the AS-number replacement stays a function of salt and number
        fa, exc = guarded(lambda: FileAnonymizer(anon_pwd=False, anon_ip=False, salt=salt, as_numbers=list(nums), reserved_words=list(case["reserved"]) if case.get("reserved") else None))
        if exc is not None:
            return core.exc_finding(exc, case, "ctor/")
        out, exc = guarded(core.run_io, fa, line + "\n", bool(case.get("nonl")))
        if exc is None:
            out = out[:-1] if out.endswith("\n") else out
    if exc is not None:
        return core.exc_finding(exc, case, "anonymize/")
    si, so = digit_runs(line), digit_runs(out)
    nt = False
    cls = ["via-" + via] + (["with-reserved-words-of-the-line"] if case.get("reserved") else []) + (["unterminated-last-line"] if case.get("nonl") and via == "io" else [])
    prev_listed = False
    for k, (isnum, t) in enumerate(si):
        if isnum:
            if t in nums:
                left = si[k - 1][1][-1] if k else " "
                right = si[k + 1][1][0] if k + 1 < len(si) else " "
                if left != " " or right != " " or int(t) in BOUNDARY:
                    nt = True
                if k >= 2 and si[k - 2][1] in nums and len(si[k - 1][1]) == 1:
                    cls.append("listed-one-char-apart")
                cls.append("listed-standalone")
            elif any(n in t for n in nums):
                nt = True
                cls.append("embedded")
    ev.case(case, nt, cls)
    if len(si) != len(so) or any(a[0] != b[0] for a, b in zip(si, so)):
        return Finding("as/structure-changed", "nums=%r salt=%r line %r -> %r" % (nums, salt, line, out), case)
    seen = {}
    for (isnum, ti), (_, to) in zip(si, so):
        if isnum and ti in nums:
            if not to.isdigit() or not to.isascii():
                return Finding("as/replacement-not-a-number", "%r -> %r" % (ti, to), case)
            if str(int(to)) != to:
                return Finding("as/replacement-not-canonical", "%r -> %r" % (ti, to), case)
            if block(int(to)) != block(int(ti)):
                return Finding("as/block-changed:block%d" % block(int(ti)), "salt=%r: %s (block %d) -> %s (block %r)" % (salt, ti, block(int(ti)), to, block(int(to))), case)
            if to == ti:
                solo, exc = guarded(lambda: AsNumberAnonymizer([ti], salt).anonymize(ti))
                if exc is None and solo != ti:
                    return Finding("as/listed-number-left-unchanged", "nums=%r salt=%r line %r -> %r" % (nums, salt, line, out), case)
            if seen.setdefault(ti, to) != to:
                return Finding("as/not-a-function-of-number-within-line", "%r -> %r and %r in line %r" % (ti, seen[ti], to, line), case)
        elif ti != to:
            kind = "listed-number-left-unchanged" if False else ("digits-of-longer-number-changed" if isnum else "other-text-changed")
            return Finding("as/" + kind, "nums=%r salt=%r line %r -> %r (%r became %r)" % (nums, salt, line, out, ti, to), case)
    if before is not None and via == "direct":
        for n, r in seen.items():
            if before[n] != r:
                return Finding("as/replacement-changes-after-a-refused-construction", "salt=%r: %s -> %s before, %s after AsNumberAnonymizer(%r, other salt) was refused" % (salt, n, before[n], r, list(nums) + [case["between"]]), case)
    # listed numbers must actually be replaced by the keyed value: compare with other instances
    for n, r in seen.items():
        solo, exc = guarded(lambda: AsNumberAnonymizer([n], salt).anonymize(n))
        if exc is not None:
            return core.exc_finding(exc, case, "ctor/")
        if solo != r:
            return Finding("as/depends-on-list-composition", "salt=%r: %s -> %s with list %r but %s alone" % (salt, n, r, nums, solo), case)
        other, exc = guarded(lambda: AsNumberAnonymizer([n] + [x for x in reversed(nums) if x != n] + ["7"], salt).anonymize(n))
        if exc is None and other != r:
            return Finding("as/depends-on-list-composition", "salt=%r: %s -> %s / %s" % (salt, n, r, other), case)
    # a listed standalone number that stayed unchanged although its keyed replacement differs
    for (isnum, ti), (_, to) in zip(si, so):
        if isnum and ti in nums and to == ti:
            solo = AsNumberAnonymizer([ti], salt).anonymize(ti)
            if solo != ti:
                return Finding("as/listed-number-left-unchanged", "line %r -> %r" % (line, out), case)
    return None


def check_grid(case, ev):
    from netconan.sensitive_item_removal import AsNumberAnonymizer

    n, salts = case["n"], case["salts"]
    imgs = set()
    for salt in salts:
        r, exc = guarded(lambda: AsNumberAnonymizer([str(n)], salt).anonymize(str(n)))
        if exc is not None:
            return core.exc_finding(exc, case, "ctor/")
        if not r.isdigit() or str(int(r)) != r or block(int(r)) != block(n):
            ev.bulk(len(salts), len(salts))
            return Finding("as/block-changed:block%d" % block(n), "salt=%r: %d -> %r" % (salt, n, r), {"n": n, "salts": [salt]})
        r2 = AsNumberAnonymizer(["5", str(n)], salt).anonymize(str(n))
        if r2 != r:
            return Finding("as/depends-on-list-composition", "salt=%r: %d -> %s / %s" % (salt, n, r, r2), {"n": n, "salts": [salt]})
        imgs.add(r)
    ev.bulk(len(salts), len(salts), sample={"n": n, "salts": salts[:3]}, classes={"block%d" % block(n): len(salts)})
    if len(salts) >= 50 and len(imgs) < 5:
        return Finding("as/replacement-ignores-salt", "%d maps to only %d values over %d salts" % (n, len(imgs), len(salts)), case)
    return None


def check_dense(case, ev):
    """case: {salt, lo, n, order}: MANY listed numbers of one small block in one anonymizer (their
    hashes necessarily collide); every replacement must still be the keyed value a one-number
    anonymizer gives, whatever the order in which the numbers are met."""
    from netconan.sensitive_item_removal import AsNumberAnonymizer, anonymize_as_numbers

    salt = case["salt"]
    nums = [str(case["lo"] + i) for i in range(case["n"])]
    an, exc = guarded(AsNumberAnonymizer, list(nums), salt)
    if exc is not None:
        return core.exc_finding(exc, case, "ctor/")
    seq = nums if case["order"] == "up" else nums[::-1]
    out, exc = guarded(anonymize_as_numbers, an, " ".join(seq))
    if exc is not None:
        return core.exc_finding(exc, case, "anonymize/")
    got = out.split(" ")
    ev.bulk(len(nums), len(nums), sample=case)
    if len(got) != len(seq):
        return Finding("as/structure-changed", "dense list of %d numbers" % len(nums), case)
    for n, r in zip(seq, got):
        solo = AsNumberAnonymizer([n], salt).anonymize(n)
        if r != solo:
            return Finding("as/depends-on-list-composition", "salt=%r: %s -> %s in a list of %d numbers met in %s order, %s alone" % (salt, n, r, len(nums), case["order"], solo), case)
        if block(int(r)) != block(int(n)):
            return Finding("as/block-changed:block%d" % block(int(n)), "%s -> %s" % (n, r), case)
    return None


REPLAY = {"longline": check_line, "lines": check_line, "grid": check_grid, "dense": check_dense}

_asn = st.one_of(st.sampled_from(BOUNDARY), st.sampled_from(RELATED), st.integers(0, 4294967295), st.integers(0, 70000))
_PUNCT = list(" !\"#$%&'()*+,-./:;<=>?@[\\]^_`{|}~") + ["\t", "é", "AS", "as", " ", "  "]
_delim = st.one_of(st.sampled_from(_PUNCT), st.lists(st.sampled_from(_PUNCT), min_size=0, max_size=3).map("".join))
_digits = st.text(alphabet="0123456789", min_size=1, max_size=3)


@st.composite
def _case(draw):
    nums = [str(n) for n in draw(st.lists(_asn, min_size=1, max_size=6, unique=True))]
    segs = [draw(st.sampled_from(["", "", " ", "router bgp ", "neighbor x remote-as ", "as-path prepend "]))]
    for i in range(draw(st.integers(1, 7))):
        n = draw(st.sampled_from(nums))
        k = draw(st.integers(0, 7))
        segs.append([n, n, n, n, draw(_digits) + n, n + draw(_digits), "0" + n, draw(_digits) + n + draw(_digits)][k])
        segs.append(draw(_delim) or draw(st.sampled_from([" ", ":", "."])))
    if draw(st.integers(0, 5)) == 0:
        # dotted text next to / instead of numbers: addresses, asdot notation, versions
        segs.insert(draw(st.integers(0, len(segs))), draw(st.sampled_from([" 10.1.10.1 ", " 1.10 ", " 2.10", "rd 65001.100 ", " 3.65001 ", "10.174.0.1", " 1.0.1 ", "v1.10.2"])))
    if draw(st.booleans()):
        segs[-1] = draw(st.sampled_from(["", "", " ", ";"]))
    via = draw(st.sampled_from(["direct", "direct", "io", "io-pwd", "direct", "io", "cli-n", "cli-an", "cli-un"]))
    line = "".join(segs)
    if draw(st.integers(0, 9)) == 0:
        # the whole line is one listed number (at most with a blank or a separator next to it)
        line = draw(st.sampled_from(["", "", " ", "\t"])) + draw(st.sampled_from(nums)) + draw(st.sampled_from(["", "", "", " ", ",", ";"]))
    if via == "io-pwd":
        line = line + draw(st.sampled_from([" password Zq9xWv", "\tkey 7 0822455D0A16", "  secret 5 $1$abcd$0123456789012345678901", " ", ""]))
    reserved = []
    if via == "io" and line.split() and draw(st.booleans()):
        reserved = draw(st.lists(st.sampled_from(line.split()), min_size=1, max_size=2, unique=True))
    return {"between": draw(st.sampled_from(["4294967296", "x", "-1", "65001a", ""])) if via == "direct" and draw(st.integers(0, 3)) == 0 else None, "reserved": reserved, "nums": nums, "line": line, "salt": draw(st.one_of(st.text(max_size=6), st.sampled_from(["", "s", "TESTSALT"]))), "via": via, "nonl": draw(st.integers(0, 3)) == 0}


def t_lines(shard, nshards, seed, ev, known, n=1000):
    return core.hyp_drive(_case(), check_line, n, seed, ev, known, check_name="lines")


def t_grid(shard, nshards, seed, ev, known, nsalts=300):
    cases = [{"n": n, "salts": ["%s%d" % (p, i) for p in ("salt", "", "é") for i in range(nsalts // 3)]} for k, n in enumerate(BOUNDARY + [65001, 7, 3356, 4200012345]) if k % nshards == shard]
    fs = core.enum_drive(cases, check_grid, ev, known, "grid")
    ev.exhaustive["boundary_numbers_x_salts"] = sum(len(c["salts"]) for c in cases)
    return fs


def t_dense(shard, nshards, seed, ev, known, nsalts=4):
    cases = [{"salt": "dense%d" % i, "lo": lo, "n": n, "order": order} for i in range(nsalts) for lo, n in ((64512, 1024), (0, 600), (65536, 300)) for order in ("up", "down")]
    cases = [c for k, c in enumerate(cases) if k % nshards == shard]
    return core.enum_drive(cases, check_dense, ev, known, "dense")


def t_longline(shard, nshards, seed, ev, known, ntok=14000):
    cases = []
    for k in range(nshards):
        if k % nshards != shard:
            continue
        nums = ["65001", "64512", "123", "4200000001"]
        toks = []
        for i in range(ntok):
            h = core.derive("asl", seed, k, i)
            toks.append(nums[h % 4] if h % 2 == 0 else str(h % 100000 + 70000))
        cases.append({"nums": nums, "line": "as-path " + [" ", "_", ","][k % 3].join(toks), "salt": "long%d" % k, "via": "io"})
    return core.enum_drive(cases, check_line, ev, known, "longline")


def plan(tier):
    q = tier == "quick"
    return [
        Task("lines", t_lines, shards=4 if q else 16, n=1500 if q else 40000),
        Task("grid", t_grid, shards=4 if q else 16, nsalts=1500 if q else 30000),
        Task("longline", t_longline, shards=3 if q else 6, ntok=40000 if q else 80000),
        Task("dense", t_dense, shards=2 if q else 8, nsalts=2 if q else 40),
    ]
