"""C15 - enabling several features equals applying them one after another."""

from hypothesis import strategies as st

from .. import core
from ..core import Finding, Task, guarded
from ..gen import ip as G
from ..gen import secrets as S

ID = "C15"
RULE = (
    "Hypothesis (feature subset of {secrets, IP, words, AS numbers} - all 16 - with undo instead of anonymize for the IP "
    "stage in a third of the cases; option values: any salt, sensitive words incl. hex-like ones that occur inside "
    "addresses, user reserved words in mixed case, AS numbers, preserved prefixes/networks, host bits for both families; "
    "multi-line input mixing recognised secret lines, address tokens of both families, listed words glued to other text, "
    "listed AS numbers and combinations of them on one line). Oracle: output of the multi-feature FileAnonymizer == "
    "chain secrets -> IP -> words -> AS numbers of single-feature FileAnonymizers with the same salt/options; second "
    "variant splits the IP stage into IPv6 then IPv4 with the library's anonymize_ip_addr. Non-trivial = >= 2 features "
    "enabled and >= 1 line changed by >= 2 stages; distinct by case."
)
ASSUMPTIONS = ["every single-feature anonymizer receives exactly the options of the multi-feature one (salt, reserved words, prefixes, networks, host bits)"]


def _kw(case, pwd, ip, words, asn):
    cfg = case["cfg"]
    undo = bool(case["undo"]) and ip
    return dict(
        anon_pwd=pwd,
        anon_ip=ip and not undo,
        undo_ip_anon=undo,
        salt=cfg["salt"],
        sensitive_words=list(case["words"]) if words else None,
        as_numbers=list(case["asns"]) if asn else None,
        reserved_words=list(case["reserved"]) if case["reserved"] else None,
        preserve_prefixes=None if cfg["prefixes"] is None else list(cfg["prefixes"]),
        preserve_networks=None if cfg.get("networks") is None else list(cfg["networks"]),
        preserve_suffix_v4=cfg["B4"],
        preserve_suffix_v6=cfg["B6"],
    )


def check_chain(case, ev):
    from netconan.anonymize_files import FileAnonymizer
    from netconan.ip_anonymization import anonymize_ip_addr

    pwd, ip, words, asn = case["features"]
    words = words and bool(case["words"])
    asn = asn and bool(case["asns"])
    orig = case
    if case.get("pad"):
        # the first line made longer than 64 KiB by one long token in front of it (kept out of the case
        # itself so that replay files stay small); a multiple of 65536 falls inside its original text
        case = dict(case, lines=["description " + "x" * case["pad"] + " " + case["lines"][0]] + list(case["lines"][1:]))
    text = "".join(l + "\n" for l in case["lines"])
    multi, exc = guarded(lambda: core.run_io(FileAnonymizer(**_kw(case, pwd, ip, words, asn)), text))
    if exc is not None:
        return core.exc_finding(exc, orig, "multi/")
    cfg = case["cfg"]
    undo_ = bool(case["undo"]) and ip
    if case.get("cli") and (pwd or ip or words or asn) and cfg["B4"] == cfg["B6"] and cfg["prefixes"] != [] and cfg["salt"] and not cfg["salt"].startswith("-") and "\x00" not in cfg["salt"] and "\r" not in text:  # (a bare CR is a line end for a file opened in text mode, not for an in-memory stream)
        # the same subset through the command line: identical to the multi-feature library result
        import os
        import shutil
        import tempfile

        from netconan.netconan import main

        d = tempfile.mkdtemp(prefix="vf-c15-")
        try:
            with open(os.path.join(d, "in.cfg"), "w", encoding="utf-8", newline="") as fh:
                fh.write(text)
            argv = ["-i", os.path.join(d, "in.cfg"), "-o", os.path.join(d, "out.cfg"), "-s", cfg["salt"], "--preserve-host-bits", str(cfg["B4"])]
            argv += (["-p"] if pwd else []) + ((["-u"] if undo_ else ["-a"]) if ip else []) + (["-w", ",".join(case["words"])] if words else []) + (["-n", ",".join(case["asns"])] if asn else [])
            argv += (["-r", ",".join(case["reserved"])] if case["reserved"] else []) + (["--preserve-prefixes", ",".join(cfg["prefixes"])] if cfg["prefixes"] else []) + (["--preserve-addresses", ",".join(cfg["networks"])] if cfg.get("networks") else [])
            _, exc = guarded(main, argv)
            if exc is not None:
                return core.exc_finding(exc, orig, "main/")
            got = open(os.path.join(d, "out.cfg"), encoding="utf-8", newline="").read() if os.path.exists(os.path.join(d, "out.cfg")) else None
        finally:
            shutil.rmtree(d, ignore_errors=True)
        if got != multi:
            gl, ml_ = (got or "").split("\n"), multi.split("\n")
            i = next((i for i, (a, b) in enumerate(zip(gl, ml_)) if a != b), 0)
            return Finding("chain/command-line-differs-from-library:%s" % "".join("pinw"[i_] if f else "-" for i_, f in enumerate((pwd, ip, asn, words))) + (":undo" if undo_ else ""), "argv %r, line %r: command line %r, FileAnonymizer %r" % (argv[4:], case["lines"][i] if i < len(case["lines"]) else None, gl[i] if i < len(gl) else None, ml_[i] if i < len(ml_) else None), orig)
    if case.get("dirfault") and "\r" not in text:
        # the same text as the last file of a directory run in which earlier entries cannot be processed
        # (undecodable input, output path taken by a directory): identical to the library result
        import os
        import shutil
        import tempfile

        from netconan.anonymize_files import anonymize_files

        d = tempfile.mkdtemp(prefix="vf-c15d-")
        try:
            os.makedirs(os.path.join(d, "in"))
            with open(os.path.join(d, "in", "00_bad.cfg"), "wb") as fh:
                fh.write(b"hostname x\n\xff\xfe\x80\n")
            with open(os.path.join(d, "in", "01_blocked.cfg"), "w") as fh:
                fh.write("interface Gi0/1\n")
            os.makedirs(os.path.join(d, "out", "01_blocked.cfg"))
            with open(os.path.join(d, "in", "zz.cfg"), "w", encoding="utf-8", newline="") as fh:
                fh.write(text)
            _, exc = guarded(anonymize_files, os.path.join(d, "in"), os.path.join(d, "out"), **_kw(case, pwd, ip, words, asn))
            if exc is not None:
                return core.exc_finding(exc, orig, "anonymize_files/")
            p_ = os.path.join(d, "out", "zz.cfg")
            got_d = open(p_, encoding="utf-8", newline="").read() if os.path.isfile(p_) else None
        finally:
            shutil.rmtree(d, ignore_errors=True)
        if got_d != multi:
            gl, ml_ = (got_d or "").split("\n"), multi.split("\n")
            i = next((i for i, (a, b) in enumerate(zip(gl, ml_)) if a != b), 0)
            return Finding("chain/directory-run-with-failing-files-differs-from-library:%s" % "".join("pinw"[i_] if f else "-" for i_, f in enumerate((pwd, ip, asn, words))), "line %r: after two failing files anonymize_files gives %r, FileAnonymizer %r" % (case["lines"][i] if i < len(case["lines"]) else None, gl[i] if i < len(gl) else None, ml_[i] if i < len(ml_) else None), orig)
    cur = text
    stages = []
    changed_by = [0] * len(case["lines"])
    for name, on, kw in (("secrets", pwd, (True, False, False, False)), ("ip", ip, (False, True, False, False)), ("words", words, (False, False, True, False)), ("as", asn, (False, False, False, True))):
        if not on:
            continue
        if name == "ip" and case.get("split_ip"):
            # the two address stages built directly from their own classes with their own options
            # (IPv6 first, then IPv4, as the stream routine applies them)
            a46, exc = guarded(lambda: (G.mk4(case["cfg"]), G.mk6(case["cfg"])))
            if exc is not None:
                return core.exc_finding(exc, orig, "single/")
            undo = bool(case["undo"])
            nxt = "".join(anonymize_ip_addr(a46[0], anonymize_ip_addr(a46[1], l, undo), undo) for l in cur.splitlines(True))
        else:
            nxt, exc = guarded(lambda: core.run_io(FileAnonymizer(**_kw(case, *kw)), cur))
            if exc is not None:
                return core.exc_finding(exc, orig, "single/")
        for i, (a, b) in enumerate(zip(cur.split("\n"), nxt.split("\n"))):
            if a != b and i < len(changed_by):
                changed_by[i] += 1
        stages.append(name)
        cur = nxt
    nfeat = sum(1 for x in (pwd, ip, words, asn) if x)
    ev.case(orig, nfeat >= 2 and any(c >= 2 for c in changed_by), ["features-" + "".join("pinw"[i] if f else "-" for i, f in enumerate((pwd, ip, asn, words))), "undo" if case["undo"] and ip else "anonymize"] + (["split-ip"] if case.get("split_ip") else []) + (["also-command-line"] if case.get("cli") else []) + (["also-directory-run-with-failing-files"] if case.get("dirfault") else []))
    if multi != cur:
        ml, cl = multi.split("\n"), cur.split("\n")
        i = next((i for i, (a, b) in enumerate(zip(ml, cl)) if a != b), 0)
        return Finding(
            "chain/multi-differs-from-chain:%s" % "+".join(stages),
            "features %s, line %r: multi-feature %r, chain of single-feature anonymizers %r" % (stages, case["lines"][i] if i < len(case["lines"]) else None, ml[i] if i < len(ml) else None, cl[i] if i < len(cl) else None),
            orig,
        )
    return None


REPLAY = {"chain": check_chain}

_WORDS = ["zorgon", "Kwyjibo", "cafe", "db8", "face", "net", "core", "10", "168", "mgmt", "LabKey"]
_ASNS = ["65001", "64512", "123", "7", "4200000001", "10"]


@st.composite
def _case(draw):
    cfg = draw(G.config())
    words = draw(st.lists(st.sampled_from(_WORDS), min_size=1, max_size=4, unique=True))
    if "net" not in words and draw(st.booleans()):
        words.append("net")  # occurs in netconan's own scrub marker and pseudonyms: stages do interact on it
    asns = draw(st.lists(st.sampled_from(_ASNS), min_size=1, max_size=3, unique=True))
    reserved = draw(st.lists(st.sampled_from(["LabKey", "MgmtVlan", "zorgonX", "CoreRtr", "Public1"]), max_size=2, unique=True))
    lines = []
    for _ in range(draw(st.integers(1, 6))):
        k = draw(st.integers(0, 8))
        w = draw(st.sampled_from(words))
        a = draw(st.sampled_from(asns))
        if k == 0:
            form = draw(st.sampled_from(S.FORMS if draw(st.integers(0, 3)) else [f for f in S.FORMS if f.mode != "pos"]))
            vals = []
            for _s in range(form.slots):
                if reserved and draw(st.integers(0, 1)) == 0 and "exact" not in form.text_kw:
                    r = draw(st.sampled_from(reserved))
                    vals.append(draw(st.sampled_from([r, r.lower(), r.upper()])))
                elif draw(st.integers(0, 4)) == 0 and "exact" not in form.text_kw:
                    vals.append(draw(st.sampled_from([w, a, w + "123"])))
                else:
                    vals.append(draw(S.secret_for(form))[1])
            sl = S.render(form, draw(st.integers(0, 20)), draw(st.integers(0, 5)), vals, draw(st.sampled_from(S.ENCLOSINGS[:6])), draw(st.sampled_from(["", " "])), "")[0]
            if draw(st.integers(0, 3)) == 0:
                sl = draw(st.sampled_from([w + "-gw#", "AS" + a, w.upper() + ">", "10.1.2.3:"])) + " " + sl.lstrip()
            lines.append(sl)
        elif k == 1:
            lines.append(draw(G.token_line(cfg=cfg, allow_v4tail=True))["line"])
        elif k == 2:
            lines.append("hostname %s-%s%s" % (draw(st.sampled_from(["core", "edge", "x"])), draw(st.sampled_from([w, w.upper(), w.capitalize()])), draw(st.sampled_from(["", "-01", ".example.com"]))))
        elif k == 3:
            lines.append("router bgp %s" % a)
        elif k == 4:
            lines.append(" neighbor %s remote-as %s" % (G.v4_canon(draw(G.u32)), a))
        elif k == 5:
            lines.append("snmp-server host %s %s" % (G.v4_canon(draw(G.u32)), draw(st.sampled_from([w + "Community", "Secret" + a, draw(S.text_value())]))))
        elif k == 6:
            n6 = draw(G.v6_int)
            lines.append("description %s link AS%s %s %s" % (w, a, draw(G.v6_spelling(n6))[0], draw(st.sampled_from(["2001:db8:cafe:12::1", "2001:db8::face", "10.168.10.1", "fe80::10"]))))
        elif k == 7:
            lines.append("ip route %s 255.255.255.0 %s name %s%s" % (G.v4_canon(draw(G.u32)), G.v4_canon(draw(G.u32)), w, a))
        else:
            lines.append(draw(st.sampled_from(["!", "", "interface Gi0/1", " mtu 1500"])))
    return {
        "cfg": cfg,
        "words": words,
        "asns": asns,
        "reserved": reserved,
        "features": draw(st.one_of(st.lists(st.booleans(), min_size=4, max_size=4), st.sampled_from([[True, False, True, False], [True, True, True, True], [True, False, True, True], [True, True, False, False]]))),
        "undo": draw(st.integers(0, 2)) == 0,
        "split_ip": draw(st.integers(0, 3)) == 0,
        "cli": draw(st.integers(0, 3)) == 0,
        "dirfault": draw(st.integers(0, 4)) == 0,
        "lines": [l.replace("\n", " ") if draw(st.integers(0, 7)) else l.replace("\n", " ").replace(" ", draw(st.sampled_from(["\x0b", "\x0c", "\x1c", "\x1d", "\x85", "\u2028", "\r", "\t"])), 1) for l in lines],
    }


def t_chain(shard, nshards, seed, ev, known, n=200):
    return core.hyp_drive(_case(), check_chain, n, seed, ev, known, check_name="chain")


def t_longline(shard, nshards, seed, ev, known, n=6):
    """The chain oracle on texts whose first line is longer than 64 KiB (secrets stage off: its patterns
    are quadratic in the line length)."""
    out = []
    cases = core.collect_cases(_case(), 40 * n, seed)[3:]
    k = 0
    for c in cases:
        l0 = c["lines"][0]
        if len(l0) < 8 or not any(ch.isdigit() for ch in l0) or "\r" in "".join(c["lines"]):
            continue
        c["features"] = [False, True, bool(c["features"][2] or k % 2), True]
        c["split_ip"] = k % 2 == 0
        c["cli"] = k % 3 == 0
        off = 1 + core.derive("c15pad", seed, k) % (len(l0) - 1)
        c["pad"] = 65536 * (1 + k % 2) - len("description ") - 1 - off
        out.append(c)
        k += 1
        if k >= n:
            break
    return core.enum_drive(out, check_chain, ev, known, "longline")


REPLAY["longline"] = check_chain


def plan(tier):
    q = tier == "quick"
    return [Task("chain", t_chain, shards=8 if q else 16, n=600 if q else 12000), Task("longline", t_longline, shards=2 if q else 8, n=5 if q else 30)]
