"""C12 - non-sensitive text and line structure are conserved."""

import re

from hypothesis import strategies as st

from .. import core
from ..core import Finding, Task, guarded
from ..gen import ip as G
from ..gen import secrets as S

ID = "C12"
RULE = (
    "Hypothesis texts of 0-25 lines: blank lines, indentation by spaces/tabs/NBSP/form feed/U+2003/\\x1c, inner separators "
    "of several white-space characters, terminators \\n or \\r\\n, optional missing final newline; lines are sequences of "
    "tokens with known kinds - benign vocabulary (computed not to contain any pattern keyword, listed word or listed "
    "number), masks and preserved addresses (also the same value twice in different spellings), addresses, tokens "
    "containing listed words, listed AS numbers - or whole recognised secret lines; all 16 feature subsets. Oracles: (1) same "
    "number of lines, each with the input's leading/trailing white space and terminator; (2) token oracle: benign, mask and "
    "preserved tokens verbatim, same token count, inner white space byte-identical unless secret or word anonymization is on "
    "(then runs may collapse to one space); (3) locality: output of every prefix of the text is the prefix of the output; "
    "without the secret stage any permutation of the lines permutes the output; with it, deleting the lines that carry no "
    "secret leaves the other output lines unchanged. Non-trivial = text with >= 3 lines, >= 1 sensitive item and >= 1 line "
    "with unusual white space; distinct by case."
)
ASSUMPTIONS = [
    "white space = what str.split()/str.strip() treat as white space (that is how netconan splits lines)",
    "secret lines are taken from the positional (non-scrub) forms; their inner structure is C07/C09's subject, here only line structure and locality are checked for them",
]

WORDS = ["zorgon", "Kwyjibo", "mgmtx"]
ASNS = ["65001", "123", "4200000001", "65546"]
_kw3 = [k.lower() for k in S.KEYWORDS if len(k) >= 3] + [w.lower() for w in WORDS]
VOCAB = [w for w in S.BENIGN + ["Ethernet1", "switchport", "spanning-tree", "portfast", "trunk", "native", "channel-group", "lacp", "fast", "ntp", "dns", "lookup", "up", "down", "42", "1500", "9000", "Gi0/1.100", "TenGigE0/0/0/1", "vrf-blue", "rt-import", "x", "=", "{", "}", "#comment", "\\\\path\\1", "a\\b", "100%", "(ok)", "[1]", "it's", 'say"hi"', "1.10", "rel-1.10.2", "v2.1", "1.0"]
         if not any(k in w.lower() for k in _kw3) and w not in ASNS]
UNUSUAL_WS = ["\t", "  ", " \t ", "\x0c", "\xa0", " ", "\x1c", "   ", "\x0b", "\x85"]


def build(case):
    """Return (text, per-line info)."""
    text = ""
    info = []
    for ln in case["lines"]:
        if "secret" in ln:
            body = ln["lead"] + "".join(t + " " for t in ln.get("prefix", [])) + ln["secret"] + ln["trail"]
        else:
            body = ln["lead"]
            for i, t in enumerate(ln["tokens"]):
                body += t["s"] + (ln["seps"][i] if i < len(ln["tokens"]) - 1 else "")
            body += ln["trail"]
        text += body + ln["eol"]
        info.append(ln)
    return text


def _fa(case, feats=None):
    from netconan.anonymize_files import FileAnonymizer

    pwd, ip, words, asn = feats if feats is not None else case["features"]
    cfg = case["cfg"]
    return FileAnonymizer(
        anon_pwd=bool(pwd),
        anon_ip=bool(ip),
        salt=cfg["salt"],
        sensitive_words=list(WORDS) if words else None,
        as_numbers=list(ASNS) if asn else None,
        preserve_prefixes=None if cfg["prefixes"] is None else list(cfg["prefixes"]),
        preserve_networks=None if cfg.get("networks") is None else list(cfg["networks"]),
        preserve_suffix_v4=cfg["B4"],
        preserve_suffix_v6=cfg["B6"],
    )


def _run(case, text):
    return core.run_io(_fa(case), text)


def _split_keep(s):
    """['lead', tok, sep, tok, ..., 'trail'] by Python white-space semantics."""
    return re.split(r"(\s+)", s)


def check_text(case, ev):
    pwd, ip, words, asn = case["features"]
    text = build(case)
    out, exc = guarded(_run, case, text)
    if exc is not None:
        return core.exc_finding(exc, case, "run/")
    il, ol = text.split("\n"), out.split("\n")
    nsens = sum(1 for ln in case["lines"] if "secret" in ln or any(t["kind"] not in ("benign",) for t in ln.get("tokens", [])))
    unusual = any(any(w in (ln["lead"] + ln["trail"] + "".join(ln.get("seps", []))) for w in UNUSUAL_WS) or ln["eol"] == "\r\n" for ln in case["lines"])
    feats = "".join("pinw"[i] if f else "-" for i, f in enumerate((pwd, ip, asn, words)))
    ev.case(case, len(case["lines"]) >= 3 and nsens >= 1 and unusual, ["features-" + feats, "lines%d" % (len(case["lines"]) // 5 * 5)] + (["no-final-newline"] if case["lines"] and case["lines"][-1]["eol"] == "" else []) + (["crlf"] if any(l["eol"] == "\r\n" for l in case["lines"]) else []))
    if len(il) != len(ol):
        return Finding("structure/line-count-changed", "%d lines in, %d out: %r -> %r" % (len(il) - 1, len(ol) - 1, text[:300], out[:300]), case)
    collapse_ok = bool(pwd or words)
    for idx, (a, b) in enumerate(zip(il, ol)):
        la, lb = a[: len(a) - len(a.lstrip())], b[: len(b) - len(b.lstrip())]
        ta, tb = a[len(a.rstrip()) :], b[len(b.rstrip()) :]
        if a.strip() == "":
            if a != b:
                return Finding("structure/blank-line-changed", "%r -> %r" % (a, b), case)
            continue
        if la != lb:
            return Finding("structure/leading-whitespace-changed:%s" % ("unusual-ws" if any(w in la for w in UNUSUAL_WS[3:]) else "spaces-tabs"), "features %s: %r -> %r" % (feats, a, b), case)
        if ta != tb:
            return Finding("structure/trailing-whitespace-or-terminator-changed:%s" % ("unusual-ws" if any(w in ta for w in UNUSUAL_WS[3:]) else "cr" if "\r" in ta else "spaces-tabs"), "features %s: %r -> %r" % (feats, a, b), case)
        ln = case["lines"][idx] if idx < len(case["lines"]) else None
        if ln is not None and "secret" in ln and ln.get("scrub"):
            continue  # whole-line scrub forms may take the text in front of the keyword with them
        if ln is not None and "secret" in ln:
            want = "".join(t + " " for t in ln.get("prefix", []))
            if not b.strip().startswith(want.rstrip(" ")):
                return Finding("tokens/text-before-secret-form-changed", "features %s: %r -> %r" % (feats, a, b), case)
            for tok in ln.get("inner", []):
                if tok not in b.split():
                    return Finding("tokens/kept-text-inside-secret-line-changed", "features %s: token %r of %r is not in %r" % (feats, tok, a, b), case)
            if ln.get("strict"):
                # tokens of a positional secret line other than the secret itself are not sensitive
                # (words / numbers / addresses inside them may change if those features are on)
                ta_, tb_ = a.split(), b.split()
                k = ln["strict"]["slot_token"] + len(ln.get("prefix", []))
                plain_only = not (ip or words or asn)
                if len(ta_) != len(tb_) or (plain_only and any(x != y for i_, (x, y) in enumerate(zip(ta_, tb_)) if i_ != k)):
                    return Finding("tokens/non-secret-tokens-of-secret-line-changed", "features %s: %r -> %r" % (feats, a, b), case)
                if ln["strict"].get("enc") and pwd and k < len(tb_) and not (tb_[k].startswith(ln["strict"]["enc"][0]) and tb_[k].endswith(ln["strict"]["enc"][1])):
                    return Finding("tokens/quotes-or-brackets-around-a-secret-changed", "features %s: %r -> %r (token %d was enclosed in %r)" % (feats, a, b, k, ln["strict"]["enc"]), case)
                if ln["strict"].get("same_text_earlier") and plain_only and pwd and k < len(tb_) and tb_[k] == ta_[k]:
                    return Finding("tokens/secret-kept-while-equal-text-earlier-in-line-changed-or-not", "features %s: %r -> %r" % (feats, a, b), case)
            continue
        if ln is None:
            continue
        pa, pb = _split_keep(a.strip()), _split_keep(b.strip())
        toks_a, toks_b = pa[0::2], pb[0::2]
        if len(toks_a) != len(toks_b):
            return Finding("tokens/count-changed", "features %s: %r -> %r" % (feats, a, b), case)
        if len(toks_a) != len(ln["tokens"]):
            continue  # a generated token contained white space itself (not expected)
        for t, x, y in zip(ln["tokens"], toks_a, toks_b):
            if asn and t["kind"] != "benign" and any(r in ASNS for r in re.findall(r"[0-9]+", x)):
                continue  # an octet / length that equals a listed AS number is a standalone number: C11
            if t["kind"] in ("benign", "mask", "preserved") and x != y:
                return Finding("tokens/non-sensitive-token-changed:%s" % t["kind"], "features %s: token %r became %r in line %r -> %r" % (feats, x, y, a, b), case)
            if not y:
                return Finding("tokens/token-vanished", "%r -> %r" % (a, b), case)
        seps_a, seps_b = pa[1::2], pb[1::2]
        if seps_a != seps_b:
            line_has_word = any(t["kind"] == "word" for t in ln["tokens"])
            if not collapse_ok or (not pwd and not line_has_word) or any(s != " " for s in seps_b):
                return Finding("tokens/inner-whitespace-changed:%s" % ("collapse-not-permitted" if not collapse_ok or (not pwd and not line_has_word) else "not-a-collapse"), "features %s: %r -> %r" % (feats, a, b), case)
    # (3) locality
    lines_in = text.split("\n")
    k = case["cut"] % (len(lines_in)) if lines_in else 0
    if 0 < k < len(lines_in):
        head = "\n".join(lines_in[:k]) + "\n"
        o2, exc = guarded(_run, case, head)
        if exc is not None:
            return core.exc_finding(exc, case, "run/")
        if not out.startswith(o2):
            return Finding("locality/prefix-of-text-gives-different-output", "features %s: first %d lines alone -> %r, within the whole text -> %r" % (feats, k, o2[-200:], out[: len(o2)][-200:]), case)
    full_lines = text.split("\n")[:-1] if text.endswith("\n") else None
    if full_lines is not None and len(full_lines) >= 2:
        perm = [p for p in case["perm"] if p < len(full_lines)]
        perm += [i for i in range(len(full_lines)) if i not in perm]
        if not pwd:
            t2 = "".join(full_lines[i] + "\n" for i in perm)
            o2, exc = guarded(_run, case, t2)
            if exc is not None:
                return core.exc_finding(exc, case, "run/")
            want = "".join(ol[i] + "\n" for i in perm)
            if o2 != want:
                return Finding("locality/output-line-depends-on-other-lines", "features %s: lines permuted %r: %r, expected %r" % (feats, perm, o2[:300], want[:300]), case)
        else:
            keep = [i for i in range(len(full_lines)) if i < len(case["lines"]) and "secret" in case["lines"][i]]
            if keep and len(keep) < len(full_lines):
                t2 = "".join(full_lines[i] + "\n" for i in keep)
                o2, exc = guarded(_run, case, t2)
                if exc is not None:
                    return core.exc_finding(exc, case, "run/")
                want = "".join(ol[i] + "\n" for i in keep)
                if o2 != want:
                    return Finding("locality/secret-line-depends-on-lines-without-secret", "features %s: %r vs %r" % (feats, o2[:300], want[:300]), case)
    return None


def check_dir(case, ev):
    """The same structural oracle at file level: the text is split over several files of different
    lengths (longest first) and anonymized as one directory; every output file must have its own
    input's lines (count, leading/trailing white space), whatever came before it."""
    import os
    import shutil
    import tempfile

    from netconan.anonymize_files import anonymize_files

    pwd, ip, words, asn = case["features"]
    cfg = case["cfg"]
    lines = case["lines"]
    cuts = sorted(set(c for c in case["cuts"] if 0 < c < len(lines)))
    chunks = [lines[a:b] for a, b in zip([0] + cuts, cuts + [len(lines)])]
    chunks.sort(key=len, reverse=True)
    d = tempfile.mkdtemp(prefix="vf-c12-")
    try:
        os.makedirs(os.path.join(d, "in"))
        texts = {}
        for i, ch in enumerate(chunks):
            name = "f%d.cfg" % i
            texts[name] = build(dict(case, lines=ch)).replace("\r\n", "\n").replace("\r", " ")
            if case.get("bom") and i % 2 == 0 and ch and "tokens" in ch[0]:  # (a secret line may be removed as a whole, mark included)
                texts[name] = "\ufeff" + texts[name]  # a file saved with a byte-order mark: it is part of the first token
            with open(os.path.join(d, "in", name), "w", encoding="utf-8", newline="") as fh:
                fh.write(texts[name])
        if case.get("latebad"):
            # a large file whose only undecodable byte lies far behind the first read buffer
            big = "".join(" description link %d to core\n" % j for j in range(3500)).encode() + b"! caf\xe9 \xff\n" + b" shutdown\n" * 20
            with open(os.path.join(d, "in", "e_big.cfg"), "wb") as fh:
                fh.write(big)
        import logging

        with core.capture_logs(logging.ERROR) as errs_:
            _, exc = guarded(
                anonymize_files, os.path.join(d, "in"), os.path.join(d, "out"), bool(pwd), bool(ip), salt=cfg["salt"],
                sensitive_words=list(WORDS) if words else None, as_numbers=list(ASNS) if asn else None,
                preserve_prefixes=None if cfg["prefixes"] is None else list(cfg["prefixes"]),
                preserve_networks=None if cfg.get("networks") is None else list(cfg["networks"]),
                preserve_suffix_v4=cfg["B4"], preserve_suffix_v6=cfg["B6"],
            )
        if exc is None and case.get("latebad") and not any("e_big.cfg" in m for _, m in errs_):
            # not reported as failed: then it was processed, and its lines must all be there, once
            p_ = os.path.join(d, "out", "e_big.cfg")
            n_out = open(p_, "rb").read().count(b"\n") if os.path.isfile(p_) else -1
            if n_out != big.count(b"\n"):
                return Finding("dir/line-count-changed:file-with-a-late-undecodable-byte", "e_big.cfg is not reported as failed; %d lines in, %d lines out" % (big.count(b"\n"), n_out), case)
        if exc is not None:
            return core.exc_finding(exc, case, "run/")
        ev.case(case, len(chunks) >= 2, ["files%d" % len(chunks)])
        for name, t in texts.items():
            p_ = os.path.join(d, "out", name)
            if not os.path.exists(p_):
                return Finding("dir/output-missing", name, case)
            o = open(p_, encoding="utf-8", newline="").read()
            il, ol = t.split("\n"), o.split("\n")
            if t.startswith("\ufeff") and not o.startswith("\ufeff"):
                return Finding("dir/byte-order-mark-dropped", "file %s starts with U+FEFF, its output with %r" % (name, o[:12]), case)
            if len(il) != len(ol):
                return Finding("dir/line-count-changed", "file %s (processed with %d other files): %d lines in, %d lines out" % (name, len(chunks) - 1, len(il) - 1, len(ol) - 1), case)
            for a, b in zip(il, ol):
                if a.strip() and (a[: len(a) - len(a.lstrip())] != b[: len(b) - len(b.lstrip())] or a[len(a.rstrip()) :] != b[len(b.rstrip()) :]):
                    return Finding("dir/edge-whitespace-changed", "file %s: %r -> %r" % (name, a, b), case)
    finally:
        shutil.rmtree(d, ignore_errors=True)
    return None


def check_corpus(case, ev):
    """Ordinary configuration lines without secrets, password anonymization on (alone or with other
    stages that have nothing to do on them): every token is carried over verbatim."""
    from netconan.anonymize_files import FileAnonymizer

    lines = [case["lead"][i % len(case["lead"])] + S.CORPUS[k % len(S.CORPUS)] for i, k in enumerate(case["idx"])]
    if case.get("wide"):
        # one line of several hundred ordinary words (a long allowed-vlan / prefix / member list)
        w, h = case["wide"]
        lines.append("".join(S.BENIGN[core.derive("wide", h, j) % len(S.BENIGN)] + ("%d" % (core.derive("widen", h, j) % 4096) if j % 3 == 0 else "") + " " for j in range(w)).rstrip())
    fa, exc = guarded(lambda: FileAnonymizer(anon_pwd=True, anon_ip=False, salt=case["salt"], sensitive_words=["qqzzqq"] if case.get("words") else None, as_numbers=["4199999999"] if case.get("asn") else None))
    if exc is not None:
        return core.exc_finding(exc, case, "ctor/")
    out, exc = guarded(core.run_io, fa, "".join(l + "\n" for l in lines))
    if exc is not None:
        return core.exc_finding(exc, case, "run/")
    outs = out.split("\n")[:-1]
    ev.case(case, True, ["corpus-lines%d" % min(len(lines), 40)] + (["line-of-%d00-words" % (case["wide"][0] // 100)] if case.get("wide") else []))
    if len(outs) != len(lines):
        return Finding("corpus/line-count-changed", "%d -> %d" % (len(lines), len(outs)), case)
    for a, b in zip(lines, outs):
        if a.split() != b.split() or a[: len(a) - len(a.lstrip())] != b[: len(b) - len(b.lstrip())]:
            if len(a.split()) > 200:
                return Finding("corpus/line-of-hundreds-of-words-changed-by-password-stage", "%d words in, %d out; first difference at word %d" % (len(a.split()), len(b.split()), next((i for i, (x, y) in enumerate(zip(a.split(), b.split())) if x != y), min(len(a.split()), len(b.split())))), {"idx": [], "lead": [""], "salt": case["salt"], "wide": case["wide"]})
            return Finding("corpus/ordinary-line-changed-by-password-stage", "%r -> %r" % (a, b), {"idx": [S.CORPUS.index(a.strip()) if a.strip() in S.CORPUS else 0], "lead": [""], "salt": case["salt"]})
    return None


REPLAY = {"text": check_text, "dir": check_dir, "corpus": check_corpus}

_lead = st.one_of(st.sampled_from(["", "", " ", "  ", "    ", "\t"]), st.sampled_from(UNUSUAL_WS), st.lists(st.sampled_from([" ", "\t", "\xa0", "\x0c", " ", "\x1c"]), max_size=3).map("".join))
_sep = st.one_of(st.sampled_from([" ", " ", " ", "  ", "\t"]), st.sampled_from(UNUSUAL_WS[:6]))
_POS1 = [f for f in S.POS_FORMS if f.slots == 1]
_SCRUB = [f for f in S.FORMS if f.mode in ("scrub", "either")]
_PHS = ("Someone", "Somegroup", "Someview", "Foo", "PEERS", "example.com")
_PH_FORMS = [f for f in _POS1 if any(ph_ in h_ for h_ in f.heads for ph_ in _PHS)]


@st.composite
def _case(draw):
    from .c05 import MASKS

    cfg = draw(G.config())
    feats = draw(st.lists(st.booleans(), min_size=4, max_size=4))
    lines = []
    masks_seen = []
    heavy = draw(st.integers(0, 2)) == 0
    for _ in range(draw(st.integers(0, 12) if draw(st.booleans()) else st.integers(0, 25))):
        eol = draw(st.sampled_from(["\n", "\n", "\n", "\r\n"]))
        k = draw(st.integers(0, 9))
        if heavy and k >= 4:
            k = 1  # secret-heavy text: most lines are recognised secret lines, in every order
        if k == 0:
            lines.append({"tokens": [], "seps": [], "lead": draw(st.sampled_from(["", "", " ", "\t", "  "])), "trail": "", "eol": eol})
            continue
        if k == 9 and draw(st.booleans()):
            # a line made only of quotes / brackets / terminators (closing line of a multi-line value)
            tok = draw(st.sampled_from(['";', '"', "'", '"}', '",', "};", "]", "}", '\\"', "';", '""', "{", "[", '"];', ",", ";"]))
            lines.append({"tokens": [{"s": tok, "kind": "benign"}], "seps": [], "lead": draw(_lead), "trail": draw(st.sampled_from(["", "", " "])), "eol": eol})
            continue
        if k == 1:
            form = draw(st.sampled_from(_POS1 if draw(st.integers(0, 3)) else _SCRUB))
            v = draw(S.secret_for(form))[1]
            if heavy and lines and draw(st.integers(0, 2)) == 0:
                # the same secret again later in the run (then usually in another quoting)
                prev = [l_["value"] for l_ in lines if l_.get("value") and not any(ch.isspace() for ch in l_["value"])]
                if prev and form.mode == "pos" and "text" in form.classes and not form.text_kw and form.reject is None:
                    v = draw(st.sampled_from(prev))
            enc_ = draw(st.sampled_from(S.ENCLOSINGS[:7])) if form.enclose and form.mode == "pos" and draw(st.booleans()) else ("", "")
            head_i = draw(st.integers(0, 20))
            if form.mode == "pos" and draw(st.integers(0, 3)) == 0:
                # a form whose line holds a name next to the secret (user name, group, peer): the places
                # where the same text can stand twice on a line
                form = draw(st.sampled_from(_PH_FORMS))
                head_i = draw(st.sampled_from([i_ for i_, h_ in enumerate(form.heads) if any(ph_ in h_ for ph_ in _PHS)]))
                v = draw(S.secret_for(form))[1]
                enc_ = ("", "")
            s, spans = S.render(form, head_i, draw(st.integers(0, 5)), [v], enc_, "", "")
            strict = None
            if form.mode == "pos" and not any(ch.isspace() for ch in v):
                st_ = s.strip()
                off = len(s) - len(s.lstrip())
                pre_ = st_[: spans[0][0] - off]
                # (a quote or bracket glued to the secret belongs to the secret's own token)
                strict = {"slot_token": len(pre_.split()) - (1 if pre_ and not pre_[-1].isspace() else 0)}
                toks_ = st_.split()
                if strict["slot_token"] >= len(toks_) or v not in toks_[strict["slot_token"]]:
                    strict = None
                elif enc_ != ("", ""):
                    strict["enc"] = list(enc_)  # quotes / brackets around the secret are not part of it: kept
            inner = []
            same_text = False
            for ph in _PHS:
                if ph in s and ph not in v and draw(st.integers(0, 2)) == 0 and not any(ch.isspace() for ch in v) and len(v) >= 4:
                    # the same text as the secret earlier on the line (user name == password):
                    # only the secret's own position may change
                    s = s.replace(ph, v)
                    toks_ = s.split()
                    last = max(i_ for i_, t_ in enumerate(toks_) if v in t_)
                    strict = {"slot_token": last, "same_text_earlier": True}
                    same_text = True
                    continue
                if ph in s and ph not in v and draw(st.booleans()):
                    tok = draw(st.sampled_from(["dom\\user", "a\\1b", "grp\\g<1>", "x\\", "user.name", "U$er", "(adm)", "né", "\\u0041"]))
                    s = s.replace(ph, tok)
                    inner.append(tok)
            if inner and not same_text:
                strict = None
            lines.append({"value": v if form.mode == "pos" else None, "secret": s.strip(), "scrub": form.mode != "pos", "strict": strict, "inner": inner, "prefix": draw(st.lists(st.sampled_from(VOCAB), max_size=2)), "lead": draw(_lead), "trail": draw(st.sampled_from(["", "", " ", "\t", "\xa0"])), "eol": eol})
            continue
        toks = []
        for _t in range(draw(st.integers(1, 7))):
            kind = draw(st.sampled_from(["benign", "benign", "benign", "v4", "v6", "mask", "word", "asn", "preserved"]))
            if kind == "benign":
                toks.append({"s": draw(st.sampled_from(VOCAB)), "kind": "benign"})
            elif kind == "v4":
                n = draw(G.u32)
                if G.is_mask(n) or any(G.in_net(n, c) for c in cfg.get("networks") or []):
                    toks.append({"s": draw(G.v4_spelling(n)), "kind": "mask"})
                else:
                    toks.append({"s": draw(G.v4_spelling(n)), "kind": "v4"})
            elif kind == "v6":
                toks.append({"s": draw(G.v6_spelling(draw(G.v6_int)))[0], "kind": "v6"})
            elif kind == "mask":
                n = draw(st.sampled_from(masks_seen)) if masks_seen and draw(st.booleans()) else draw(st.sampled_from(MASKS))
                masks_seen.append(n)
                toks.append({"s": draw(G.v4_spelling(n, allow_len=False)), "kind": "mask"})
            elif kind == "preserved" and cfg.get("networks"):
                n = draw(G.addr_near(cfg["networks"]))
                inside = any(G.in_net(n, c) for c in cfg["networks"]) or G.is_mask(n)
                toks.append({"s": draw(G.v4_spelling(n)), "kind": "preserved" if inside else "v4"})
            elif kind == "word":
                w = draw(st.sampled_from(WORDS))
                toks.append({"s": draw(st.sampled_from(["", "core-", "x"])) + draw(st.sampled_from([w, w.upper()])) + draw(st.sampled_from(["", "-01", ".lab"])), "kind": "word"})
            else:
                toks.append({"s": draw(st.sampled_from(ASNS)) if kind == "asn" else draw(st.sampled_from(VOCAB)), "kind": "asn" if kind == "asn" else "benign"})
        lines.append({"tokens": toks, "seps": [draw(_sep) for _ in toks[:-1]], "lead": draw(_lead), "trail": draw(st.sampled_from(["", "", "", " ", "\t", "  ", "\xa0", "\x0c"])), "eol": eol})
    if lines and draw(st.integers(0, 3)) == 0:
        lines[-1]["eol"] = ""
    return {"cfg": cfg, "features": feats, "lines": lines, "cut": draw(st.integers(0, 30)), "perm": draw(st.permutations(list(range(len(lines))))) if lines else []}


def t_text(shard, nshards, seed, ev, known, n=300):
    fs = core.hyp_drive(_case(), check_text, n, seed, ev, known, check_name="text", max_keys=8)
    if shard == 0:
        # every positional single-secret form with every head and every non-empty trailing context once:
        # the tokens after (and before) the secret are not sensitive and stay
        samples = {"text": "Zq9xWv7Kp3", "numeric": "8675309", "hex": "abcdef12", "type7": "122A00190102180D3C2E", "md5": "$1$wtHI$0rN7R8PKwC30AsCGA77vy.", "sha512": "$6$" + "a" * 16 + "$" + "b" * 86, "j9": "$9$Be4EhyVb2GDkevYo"}
        cases = []
        for f in _POS1:
            for hi in range(len(f.heads)):
                for ti, tr in enumerate(f.trails):
                    if not tr.strip():
                        continue
                    v = "cRr9m5bWF4D1P7EsGw53WWzWMOGxcvnY" if "exact" in f.text_kw else samples[f.classes[0]]
                    s, spans = S.render(f, hi, ti, [v], ("", ""), "", "")
                    st_ = s.strip()
                    pre_ = st_[: spans[0][0] - (len(s) - len(s.lstrip()))]
                    k = len(pre_.split()) - (1 if pre_ and not pre_[-1].isspace() else 0)
                    if k >= len(st_.split()) or v not in st_.split()[k]:
                        continue
                    cases.append({"cfg": {"salt": "s", "B4": 8, "B6": 8, "prefixes": None, "networks": None, "mode": "default"}, "features": [True, False, False, False], "cut": 0, "perm": [0],
                                  "lines": [{"value": v, "secret": st_, "scrub": False, "strict": {"slot_token": k}, "inner": [], "prefix": [], "lead": "", "trail": "", "eol": "\n"}]})
        fs = fs + core.enum_drive(cases, check_text, ev, known, "text")
    return fs


@st.composite
def _dir_case(draw):
    c = draw(_case())
    if any(getattr(f, "keys", None) is None for f in c["features"]) and not any(c["features"]):
        c["features"][0] = True
    c["cuts"] = draw(st.lists(st.integers(1, max(1, len(c["lines"]) - 1)), min_size=1, max_size=3))
    c["bom"] = draw(st.integers(0, 3)) == 0
    c["latebad"] = draw(st.integers(0, 5)) == 0
    return c


def t_dir(shard, nshards, seed, ev, known, n=60):
    return core.hyp_drive(_dir_case(), check_dir, n, seed, ev, known, check_name="dir")


def t_corpus(shard, nshards, seed, ev, known, n=60):
    strat = st.fixed_dictionaries({"idx": st.lists(st.integers(0, len(S.CORPUS) - 1), min_size=1, max_size=30), "lead": st.lists(st.sampled_from(["", "", " ", "\t", "    "]), min_size=1, max_size=5), "salt": st.sampled_from(["s", "", "Tsalt"]), "words": st.booleans(), "asn": st.booleans()})
    fs = core.hyp_drive(strat, check_corpus, n, seed, ev, known, check_name="corpus")
    # and every corpus line once, in order
    wide = [{"idx": [0], "lead": [""], "salt": "s", "wide": [w, core.derive("c12w", seed, shard, w) % 1000]} for w in (250, 257, 300, 513, 700, 1100)]
    return fs + core.enum_drive([{"idx": list(range(len(S.CORPUS))), "lead": [""], "salt": "s"}] + wide, check_corpus, ev, known, "corpus")


def plan(tier):
    q = tier == "quick"
    return [
        Task("text", t_text, shards=8 if q else 16, n=300 if q else 12000),
        Task("dir", t_dir, shards=3 if q else 8, n=80 if q else 1500),
        Task("corpus", t_corpus, shards=1 if q else 4, n=80 if q else 2000),
    ]
