"""C02 - IP anonymization is exactly reversible with the same salt and options."""

import ipaddress
import os
import shutil
import subprocess
import sys
import tempfile

from hypothesis import strategies as st

from .. import core
from ..core import Finding, Task, guarded
from ..gen import ip as G

ID = "C02"
RULE = (
    "int: Hypothesis (cfg, family, address x, arbitrary value y0, history of 0..8 earlier anonymize/deanonymize "
    "requests that pre-load the undoing instance, some of them neighbours of x or of its image; optionally other "
    "anonymizers with preserved networks next to x constructed between the forward and the undoing instance): "
    "U.deanonymize(F.anonymize(x)) == x and F'.anonymize(U'.deanonymize(y0)) == y0 with F, U, F', U' distinct "
    "instances; file: lines of standalone address tokens of both families in generated spellings, masks, preserved "
    "addresses, addresses constructed so that their image is mask-shaped or a special IPv6 address (link-local, loopback ...), near-miss tokens and words; forward pass by "
    "one FileAnonymizer, undo by a new one; expected = input with address tokens canonicalised (masks/preserved as "
    "written; mask-shaped images stay). bulk: one forward anonymizer maps 24000/60000 addresses, a fresh instance undoes a sample; sameobj: forward and undo requests for the same texts interleaved on ONE pair of "
    "anonymizer objects, each answer compared with fresh objects. cli: the same through `python -m netconan.netconan` -a then -u in two "
    "processes. Non-trivial = address neither mask-shaped nor preserved whose image differs from it (int), file case "
    "with >= 2 such addresses; distinct by case."
)
ASSUMPTIONS = [
    "undo is given exactly the forward pass's salt and options",
]


def check_int(case, ev):
    fam, cfg, x, y0, hist = case["fam"], case["cfg"], case["x"], case["y0"], case["hist"]
    F, exc = guarded(G.mk, cfg, fam)
    if exc is not None:
        return core.exc_finding(exc, case, "ctor/")
    y, exc = guarded(F.anonymize, x)
    if exc is not None:
        return core.exc_finding(exc, case, "anonymize/")
    for oc in case.get("between", []):
        # anonymizers with other options constructed (and used) between the forward and the undo one
        o, exc = guarded(G.mk, oc, fam)
        if exc is not None:
            return core.exc_finding(exc, case, "ctor/")
        guarded(o.anonymize, x)
    U, _ = guarded(G.mk, cfg, fam)
    for op, v in hist:
        _, exc = guarded(U.anonymize if op == "a" else U.deanonymize, v)
        if exc is not None:
            return core.exc_finding(exc, case, "history/")
    x2, exc = guarded(U.deanonymize, y)
    if exc is not None:
        return core.exc_finding(exc, case, "deanonymize/")
    B = cfg["B4"] if fam == 4 else cfg["B6"]
    cls = ["v%d" % fam, "B-%s" % ("0" if B == 0 else "32" if B == 32 else "mid"), "hist%d" % min(len(hist), 3), "mode-" + cfg.get("mode", "?")] + (["foreign-ctor-between"] if case.get("between") else [])
    ev.case(case, y != x, cls)
    if x2 != x:
        return Finding(
            "int/undo-of-image-wrong:v%d:%s" % (fam, "cold" if not hist else "preloaded"),
            "cfg=%r: anonymize(%d)=%d, but a %s instance deanonymizes that to %d" % (cfg, x, y, "fresh" if not hist else "pre-loaded", x2),
            case,
        )
    U2, _ = guarded(G.mk, cfg, fam)
    p, exc = guarded(U2.deanonymize, y0)
    if exc is not None:
        return core.exc_finding(exc, case, "deanonymize/")
    F2, _ = guarded(G.mk, cfg, fam)
    y1, exc = guarded(F2.anonymize, p)
    if exc is not None:
        return core.exc_finding(exc, case, "anonymize/")
    if y1 != y0:
        return Finding("int/anonymize-of-undone-wrong:v%d" % fam, "cfg=%r: deanonymize(%d)=%d but anonymize of that is %d" % (cfg, y0, p, y1), case)
    return None


def expected_roundtrip(segs, cfg, fresh4, fresh6, stats=None):
    out = []
    for sg in segs:
        if sg["t"] == "v4":
            n = sg["n"]
            addr, suffix = G.split_len(sg["s"])
            if G.is_mask(n) or any(G.in_net(n, c) for c in cfg.get("networks") or []):
                out.append(sg["s"])
                if stats is not None:
                    stats.append("mask-or-preserved")
                continue
            m = fresh4.anonymize(n)
            if G.is_mask(m):
                out.append(G.v4_canon(m) + suffix)
                if stats is not None:
                    stats.append("image-is-mask")
            else:
                out.append(G.v4_canon(n) + suffix)
                if stats is not None:
                    stats.append("restored4" if m != n else "fixed-point4")
        elif sg["t"] == "v6":
            addr, suffix = G.split_len(sg["s"])
            out.append(str(ipaddress.IPv6Address(sg["n"])) + suffix)
            if stats is not None:
                stats.append("restored6")
        else:
            out.append(sg["s"])
    return "".join(out)


def _resolve(case):
    """Materialise 'mask image' tokens: {"t":"v4img","mask":m} -> address whose image is that mask."""
    cfg = case["cfg"]
    segs = []
    U = None
    for sg in case["segs"]:
        if sg["t"] == "v4img":
            if U is None:
                U = G.mk4(cfg)
            n = U.deanonymize(sg["mask"])
            segs.append({"t": "v4", "s": G.v4_canon(n) + sg.get("suffix", ""), "n": n, "kind": "mask-image"})
        elif sg["t"] == "v6img":
            # an address whose IMAGE is a chosen special address (link-local, loopback, mapped ...)
            n = G.mk6(cfg).deanonymize(sg["target"])
            segs.append({"t": "v6", "s": str(ipaddress.IPv6Address(n)), "n": n, "kind": "special-image"})
        else:
            segs.append(sg)
    return segs


def check_file(case, ev):
    cfg = case["cfg"]
    segs_lines, exc = guarded(lambda: [_resolve({"cfg": cfg, "segs": l}) for l in case["lines"]])
    if exc is not None:
        return core.exc_finding(exc, case, "deanonymize/")
    text = "".join("".join(s["s"] for s in l) + "\n" for l in segs_lines)
    fresh4, exc = guarded(G.mk4, cfg)
    if exc is not None:
        return core.exc_finding(exc, case, "ctor/")
    fresh6, _ = guarded(G.mk6, cfg)
    stats = []
    want = "".join(expected_roundtrip(l, cfg, fresh4, fresh6, stats) + "\n" for l in segs_lines)
    fa, exc = guarded(G.file_anonymizer, cfg)
    if exc is not None:
        return core.exc_finding(exc, case, "ctor/")
    fwd, exc = guarded(core.run_io, fa, text)
    if exc is not None:
        return core.exc_finding(exc, case, "forward/")
    fu, exc = guarded(G.file_anonymizer, cfg, True)
    if exc is not None:
        return core.exc_finding(exc, case, "ctor/")
    back, exc = guarded(core.run_io, fu, fwd)
    if exc is not None:
        return core.exc_finding(exc, case, "undo/")
    nrest = sum(1 for s in stats if s.startswith("restored"))
    ev.case(case, nrest >= 2 and "restored4" in stats and "restored6" in stats, sorted(set(stats)) + ["lines%d" % min(len(segs_lines), 4)])
    if back != want:
        bl, wl = back.split("\n"), want.split("\n")
        bad = next((i for i, (a, b) in enumerate(zip(bl, wl)) if a != b), 0)
        kinds = sorted({s["t"] + ("/" + s.get("kind", "") if s["t"].startswith("v") else "") for s in segs_lines[min(bad, len(segs_lines) - 1)]} - {"sep"})
        return Finding(
            "file/undo-does-not-restore:" + ("v6" if any(k.startswith("v6") for k in kinds) and not any(k.startswith("v4") for k in kinds) else "v4" if not any(k.startswith("v6") for k in kinds) else "mixed"),
            "cfg=%r line %r -> forward %r -> undo %r, expected %r" % (cfg, text.split("\n")[bad], fwd.split("\n")[bad] if bad < len(fwd.split("\n")) else None, bl[bad] if bad < len(bl) else None, wl[bad]),
            case,
        )
    return None


def check_sameobj(case, ev):
    """Forward and undo requests for the same texts through ONE pair of anonymizer objects
    (library use: anonymize_ip_addr(anonymizer, line, undo)), interleaved; every answer must be
    what fresh objects give, and undo(forward(L)) must restore L as in check_file."""
    from netconan.ip_anonymization import anonymize_ip_addr

    cfg = case["cfg"]
    segs_lines, exc = guarded(lambda: [_resolve({"cfg": cfg, "segs": l}) for l in case["lines"]])
    if exc is not None:
        return core.exc_finding(exc, case, "deanonymize/")
    a4, exc = guarded(G.mk4, cfg)
    if exc is not None:
        return core.exc_finding(exc, case, "ctor/")
    a6 = G.mk6(cfg)
    fresh4, fresh6 = G.mk4(cfg), G.mk6(cfg)

    def run(o4, o6, text, undo):
        return anonymize_ip_addr(o4, anonymize_ip_addr(o6, text, undo), undo)

    stats = []
    for segs in segs_lines:
        line = "".join(s["s"] for s in segs)
        want_back = expected_roundtrip(segs, cfg, fresh4, fresh6, stats)
        steps = [("forward", line, False)]
        fwd_ref, exc = guarded(run, G.mk4(cfg), G.mk6(cfg), line, False)
        if exc is not None:
            return core.exc_finding(exc, case, "forward/")
        steps += [("undo-of-forward", fwd_ref, True), ("undo-of-original-text", line, True), ("forward-again", line, False), ("forward-of-forward", fwd_ref, False)]
        order = case.get("order", [0, 1, 2, 3, 4])
        for k in order:
            name, text, undo = steps[k % len(steps)]
            got, exc = guarded(run, a4, a6, text, undo)
            if exc is not None:
                return core.exc_finding(exc, case, "sameobj/")
            ref = run(G.mk4(cfg), G.mk6(cfg), text, undo)
            if got != ref:
                ev.case(case, True, ["sameobj"])
                return Finding("sameobj/%s-differs-from-fresh-objects" % name, "cfg=%r: %s of %r on objects that served earlier requests = %r, on fresh objects %r" % (cfg, name, text, got, ref), case)
            if name == "undo-of-forward" and got != want_back:
                ev.case(case, True, ["sameobj"])
                return Finding("sameobj/undo-does-not-restore", "cfg=%r: %r -> %r -> %r, expected %r" % (cfg, line, fwd_ref, got, want_back), case)
    ev.case(case, any(s.startswith("restored") for s in stats), sorted(set(stats)) + ["sameobj"])
    return None


def check_bulk(case, ev):
    """case: {fam, cfg, n, start, stride}: ONE forward anonymizer maps n addresses; a FRESH instance
    must undo a sample of the images (first, middle and last ones)."""
    fam, cfg, n = case["fam"], case["cfg"], case["n"]
    W = 32 if fam == 4 else 128
    F, exc = guarded(G.mk, cfg, fam)
    if exc is not None:
        return core.exc_finding(exc, case, "ctor/")
    mult = case["stride"] | 1
    pairs = []
    for i in range(n):
        x = (case["start"] + i * mult) & ((1 << W) - 1)
        y, exc = guarded(F.anonymize, x)
        if exc is not None:
            return core.exc_finding(exc, case, "anonymize/")
        if i % max(1, n // 300) == 0 or i >= n - 50:
            pairs.append((x, y))
    ev.bulk(1, 1, sample=case)
    ev.notes["addresses_loaded"] = ev.notes.get("addresses_loaded", 0) + n
    U = G.mk(cfg, fam)
    for x, y in pairs:
        back, exc = guarded(U.deanonymize, y)
        if exc is not None:
            return core.exc_finding(exc, case, "deanonymize/")
        if back != x:
            return Finding("bulk/fresh-instance-cannot-undo-image-from-long-run:v%d" % fam, "cfg=%r: address %d mapped to %d during a run of %d addresses; a fresh instance undoes that to %d" % (cfg, x, y, n, back), case)
    return None


def check_cli(case, ev):
    """Forward and undo in two separate interpreter processes through the real command line."""
    cfg = case["cfg"]
    if cfg["B4"] != cfg["B6"]:
        cfg = dict(cfg, B6=cfg["B4"])  # the CLI has one host-bit option for both families
    if cfg["salt"].startswith("-") or "\x00" in cfg["salt"] or any(ord(c) > 0x10FFFF or 0xD800 <= ord(c) <= 0xDFFF for c in cfg["salt"]):
        ev.excluded_domain["salt-not-expressible-as-argv"] += 1
        return None
    segs_lines = [_resolve({"cfg": cfg, "segs": l}) for l in case["lines"]]
    text = "".join("".join(s["s"] for s in l) + "\n" for l in segs_lines)
    fresh4, fresh6 = G.mk4(cfg), G.mk6(cfg)
    stats = []
    want = "".join(expected_roundtrip(l, cfg, fresh4, fresh6, stats) + "\n" for l in segs_lines)
    d = tempfile.mkdtemp(prefix="vf-c02-")
    try:
        with open(os.path.join(d, "in.cfg"), "w", encoding="utf-8", newline="") as fh:
            fh.write(text)
        base = [sys.executable, "-m", "netconan.netconan", "-s", cfg["salt"], "--preserve-host-bits", str(cfg["B4"])]
        if cfg["prefixes"] is not None:
            if not cfg["prefixes"]:
                ev.excluded_domain["empty-prefix-list-not-expressible-on-cli"] += 1
                return None
            base += ["--preserve-prefixes", ",".join(cfg["prefixes"])]
        nets = list(cfg.get("networks") or [])
        if case.get("private_flag") and all(r in nets for r in G.RFC1918):
            # the private blocks through their own switch, on both runs
            base.append("--preserve-private-addresses")
            nets = [n for n in nets if n not in G.RFC1918]
        if nets:
            base += ["--preserve-addresses", ",".join(nets)]
        env = dict(os.environ, PYTHONPATH=core.REPO, PYTHONDONTWRITEBYTECODE="1", PYTHONIOENCODING="utf-8", PYTHONUTF8="1")
        p1 = subprocess.run(base + ["-a", "-i", os.path.join(d, "in.cfg"), "-o", os.path.join(d, "fwd.cfg")], capture_output=True, text=True, env=env, cwd=d)
        p2 = subprocess.run(base + ["-u", "-i", os.path.join(d, "fwd.cfg"), "-o", os.path.join(d, "back.cfg")], capture_output=True, text=True, env=env, cwd=d)
        if p1.returncode or p2.returncode or not os.path.exists(os.path.join(d, "back.cfg")):
            return Finding("cli/process-failed", "rc=%d/%d stderr=%s %s" % (p1.returncode, p2.returncode, p1.stderr[-300:], p2.stderr[-300:]), case)
        back = open(os.path.join(d, "back.cfg"), encoding="utf-8", newline="").read()
    finally:
        shutil.rmtree(d, ignore_errors=True)
    ev.case(case, "restored4" in stats or "restored6" in stats, sorted(set(stats)))
    if back != want:
        return Finding("cli/undo-does-not-restore", "cfg=%r text=%r -> %r expected %r" % (cfg, text, back, want), case)
    return None


def check_pwdline(case, ev):
    """Lines holding an address AND a secret: forward with -p -a, back with -p -u (fresh objects, same salt
    and options): every address token comes back as written.  case: {cfg, tpl, addrs, mask, secret}"""
    from .c05 import PWD_TEMPLATES

    cfg = case["cfg"]
    tpl = PWD_TEMPLATES[case["tpl"]]
    it = iter(case["addrs"])
    parts, at = [], {}
    for i, t in enumerate(tpl.split(" ")):
        if t.startswith("{a}"):
            n = next(it)
            sp = G.v4_canon(n) + t[3:]
            at[i] = sp
            if not any(G.in_net(n, c) for c in cfg.get("networks") or []):
                m = G.mk4(cfg).anonymize(n)
                if G.is_mask(m):
                    # a mask-shaped image is left alone by the undo pass, as in the file-level check
                    at[i] = G.v4_canon(m) + t[3:]
            parts.append(sp)
        elif t == "{m}":
            at[i] = G.v4_canon(case["mask"])
            parts.append(at[i])
        else:
            parts.append(t.replace("{s}", case["secret"]))
    line = " ".join(parts)
    fa, exc = guarded(G.file_anonymizer, cfg, False, anon_pwd=True)
    if exc is not None:
        return core.exc_finding(exc, case, "ctor/")
    fwd, exc = guarded(core.run_io, fa, line + "\n")
    if exc is not None:
        return core.exc_finding(exc, case, "anonymize/")
    fu, exc = guarded(G.file_anonymizer, cfg, True, anon_pwd=True)
    if exc is not None:
        return core.exc_finding(exc, case, "ctor/")
    back, exc = guarded(core.run_io, fu, fwd)
    if exc is not None:
        return core.exc_finding(exc, case, "undo/")
    ev.case(case, fwd != line + "\n", ["address-and-secret-on-one-line", "tpl%02d" % case["tpl"]])
    bp = back.rstrip("\n").split(" ")
    for i, want in at.items():
        if i >= len(bp) or bp[i] != want:
            return Finding("pwdline/undo-does-not-restore-an-address-next-to-a-secret", "cfg=%r: %r -> %r -> %r (token %d should be %r again)" % (cfg, line, fwd, back, i, want), case)
    return None


REPLAY = {"pwdlines": check_pwdline, "bulk": check_bulk, "int": check_int, "file": check_file, "cli": check_cli, "sameobj": check_sameobj}


@st.composite
def _int_case(draw):
    fam = draw(st.sampled_from([4, 4, 6]))
    W = 32 if fam == 4 else 128
    cfg = draw(G.config())
    x = draw(G.u32 if fam == 4 else G.v6_int)
    if fam == 4 and draw(st.integers(0, 3)) == 0 and G.effective_prefixes(cfg):
        x = draw(G.addr_near(G.effective_prefixes(cfg)))
    y0 = draw(G.u32 if fam == 4 else G.u128)
    hist = []
    for _ in range(draw(st.integers(0, 8)) if draw(st.booleans()) else 0):
        base = draw(st.sampled_from([x, y0]))
        v = draw(st.one_of(G.neighbour(base, W, min_shared=draw(st.integers(0, W))), st.integers(0, (1 << W) - 1)))
        hist.append([draw(st.sampled_from(["a", "d"])), v])
    between = []
    if draw(st.integers(0, 2)) == 0:
        between = [draw(G.config(networks="always")) for _ in range(draw(st.integers(1, 2)))]
        if draw(st.booleans()):
            # all of them with the default prefix list (the only list the anonymizers could be sharing)
            cfg["prefixes"] = None
            cfg["mode"] = "default"
            for oc in between:
                oc["prefixes"] = None
                oc["mode"] = "default"
        if fam == 4 and draw(st.booleans()):
            x = draw(G.addr_near([c for oc in between for c in oc["networks"]]))
    return {"fam": fam, "cfg": cfg, "x": x, "y0": y0, "hist": hist, "between": between}


@st.composite
def _file_case(draw, max_lines=4, modes=("default", "empty", "list", "nested")):
    cfg = draw(G.config(modes=modes))
    from .c05 import MASKS

    lines = []
    for _ in range(draw(st.integers(1, max_lines))):
        tl = draw(G.token_line(cfg=cfg, allow_v4tail=True, special4=st.sampled_from(MASKS)))
        segs = tl["segs"]
        if draw(st.integers(0, 5)) == 0:
            # an address whose image is mask shaped (resolved at check time with the real code)
            m = draw(st.sampled_from(MASKS))
            segs = segs + [{"t": "sep", "s": " "}, {"t": "v4img", "mask": m, "suffix": draw(st.sampled_from(["", "/24"]))}]
        if draw(st.integers(0, 5)) == 0:
            tgt = draw(st.sampled_from([(0xFE80 << 112) | 1, (0xFE80 << 112) | 0xABCD, (0xFEBF << 112) | 5, 1, 0, (0xFFFF << 32) | 0x0A000001, 0xFF02 << 112 | 1, (0x2001 << 112) | (0xDB8 << 96) | 1]))
            segs = segs + [{"t": "sep", "s": " "}, {"t": "v6img", "target": tgt}]
        lines.append(segs)
    return {"cfg": cfg, "lines": lines}


@st.composite
def _cli_case(draw):
    c = draw(_file_case(max_lines=3, modes=("default", "list", "nested")))
    c["cfg"]["salt"] = draw(st.one_of(st.text(alphabet="abcXYZ019_ é", min_size=0, max_size=8), st.sampled_from(["", "s", " x"])))
    if draw(st.integers(0, 2)) == 0:
        extra = draw(G.cidr_list(max_size=2, lengths=st.integers(8, 32))) if draw(st.booleans()) else []
        c["cfg"]["networks"] = list(G.RFC1918) + extra
        c["private_flag"] = True
        for _ in range(draw(st.integers(1, 3))):
            n = draw(G.addr_near(G.RFC1918))
            c["lines"].append([{"t": "sep", "s": draw(st.sampled_from([" ip address ", "host ", ""]))}, {"t": "v4", "s": G.v4_canon(n), "n": n, "kind": "canonical"}, {"t": "sep", "s": draw(st.sampled_from(["", " 255.255.255.0", " log"]))}])
    return c


@st.composite
def _sameobj_case(draw):
    c = draw(_file_case(max_lines=3))
    c["order"] = draw(st.permutations([0, 1, 2, 3, 4]))
    return c


def t_sameobj(shard, nshards, seed, ev, known, n=200):
    return core.hyp_drive(_sameobj_case(), check_sameobj, n, seed, ev, known, check_name="sameobj")


@st.composite
def _bulk_case(draw, n):
    fam = draw(st.sampled_from([4, 4, 6]))
    W = 32 if fam == 4 else 128
    cfg = draw(G.config())
    cfg["B4"] = draw(st.sampled_from([0, 0, 4]))
    cfg["B6"] = draw(st.sampled_from([0, 8]))
    return {"fam": fam, "cfg": cfg, "n": n if fam == 4 else n // 8, "start": draw(st.integers(0, (1 << W) - 1)), "stride": draw(st.integers(1 << (W - 14), (1 << W) - 1))}


def t_bulk(shard, nshards, seed, ev, known, n=1, size=24000):
    cases = core.collect_cases(_bulk_case(size), n + 3, seed)[3:]
    return core.enum_drive(cases, check_bulk, ev, known, "bulk")


def t_int(shard, nshards, seed, ev, known, n=1000):
    return core.hyp_drive(_int_case(), check_int, n, seed, ev, known, check_name="int")


def t_file(shard, nshards, seed, ev, known, n=200):
    return core.hyp_drive(_file_case(), check_file, n, seed, ev, known, check_name="file")


def t_cli(shard, nshards, seed, ev, known, n=10):
    return core.hyp_drive(_cli_case(), check_cli, n, seed, ev, known, check_name="cli", shrink=False)


@st.composite
def _pwdline_case(draw):
    from .c05 import MASKS, PWD_TEMPLATES

    cfg = draw(G.config())
    tpl = draw(st.integers(0, len(PWD_TEMPLATES) - 1))
    addrs = [draw(G.u32.filter(lambda x: not G.is_mask(x))) for _ in range(PWD_TEMPLATES[tpl].count("{a}"))]
    return {"cfg": cfg, "tpl": tpl, "addrs": addrs, "mask": draw(st.sampled_from(MASKS)), "secret": draw(st.sampled_from(["Secr3tKey", "c0mmunity-X", "Zx81Qp"]))}


def t_pwdlines(shard, nshards, seed, ev, known, n=300):
    return core.hyp_drive(_pwdline_case(), check_pwdline, n, seed, ev, known, check_name="pwdlines")


def plan(tier):
    q = tier == "quick"
    return [
        Task("int", t_int, shards=4 if q else 16, n=1000 if q else 15000),
        Task("file", t_file, shards=4 if q else 16, n=250 if q else 2000),
        Task("cli", t_cli, shards=2 if q else 16, n=6 if q else 40),
        Task("bulk", t_bulk, shards=3 if q else 8, n=1 if q else 4, size=24000 if q else 60000),
        Task("sameobj", t_sameobj, shards=3 if q else 16, n=250 if q else 2000),
        Task("pwdlines", t_pwdlines, shards=2 if q else 8, n=300 if q else 5000),
    ]
