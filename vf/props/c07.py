"""C07 - no part of a secret survives: output is independent of secret content."""

import logging

from hypothesis import strategies as st

from .. import core
from ..core import Finding, Task, guarded
from ..gen import secrets as S
from ..ref import juniper9 as J

ID = "C07"
RULE = (
    "runs: Hypothesis runs of 1-6 recognised secret lines (form, optional parts, indentation, trailing context, quoting "
    "drawn from the harness's form table; 1-2 secret slots per line) with an equality pattern over the slots and a format "
    "class per block, instantiated TWICE with independently drawn secret values (same class, same md5 salt length, values "
    "distinct across blocks, sometimes differing only in letter case); both go through a fresh "
    "FileAnonymizer(anon_pwd).anonymize_io. Oracles: outputs byte-identical and INFO+ log records identical; every slot "
    "holds something that is not the secret with the text around it kept (scrub forms: scrub notice, secret gone); the "
    "secret occurs neither in its replacement nor in any INFO+ record. standalone: a single $1$/$9$ token among keywords of "
    "the patterns, benign words and numbers - the token must be gone. longline: a recognised secret line behind a padding token so "
    "that the physical line exceeds 64 KiB and the 65536-character mark falls inside the keyword or the secret. Non-trivial = run whose two instantiations differ in "
    "every slot with at least one non-text slot; distinct by (forms, optional parts, classes, pattern)."
)
ASSUMPTIONS = [
    "recognised line forms = the harness's table vf/gen/secrets.py (written from the pattern groups and the test templates)",
    "secret values: printable non-space ASCII without quote/bracket/terminator characters and '$' (text), or the harness's encoders for the other classes; one-digit secrets are not generated (indistinguishable from the optional type field)",
]


def identity(cls, v):
    """What netconan is specified to treat as 'the same secret': the string itself, or the
    plaintext of a $9$ string (which is the same secret as that plaintext in clear)."""
    if cls == "j9":
        try:
            return J.decode(v)
        except ValueError:
            return v
    return v


def _instantiate(case, which):
    """Lines and slot spans of one instantiation."""
    vals = case["values"][which]
    out = []
    for ln in case["lines"]:
        form = S.FORM_BY_ID[ln["form"]]
        values = [vals[b] for b in ln["blocks"]]
        line, spans = S.render(form, ln["head"], ln["trail"], values, tuple(ln["enc"]), ln["lead"], ln["tail_ws"])
        out.append((line, spans, values, ln))
    return out


def _anonymize(lines, salt, undo=False, nonl=False):
    from netconan.anonymize_files import FileAnonymizer

    import random

    state = random.getstate()
    try:
        if salt is None:
            # salt option left at its default: netconan draws one from `random`; pin that draw so that
            # paired runs get the same generated salt (and nothing depends on the wall clock)
            random.seed(0x5A17)
        with core.capture_logs(logging.INFO) as records:
            fa = FileAnonymizer(anon_pwd=True, anon_ip=False, undo_ip_anon=undo, salt=salt)
            out = core.run_io(fa, "".join(l + "\n" for l in lines), nonl)
    finally:
        random.setstate(state)
    if salt is None:
        records = [r for r in records if "No salt was provided" not in r[1]]
    return out.split("\n")[:-1] if out.endswith("\n") else out.split("\n"), list(records)


def _positional(line, spans, values, out, form, classes, ln, other_out=None):
    """None if every slot was replaced with the surrounding text kept; else (kind, detail)."""
    if form.mode in ("scrub", "either") and S.SCRUB in out:
        rest = out.replace(S.SCRUB, " ")
        for v in values:
            if v in rest:
                return "secret-kept-in-scrubbed-line", "%r -> %r" % (line, out)
        return None
    if form.mode == "scrub":
        return "not-scrubbed", "%r -> %r" % (line, out)
    pos_i = 0
    pos_o = 0
    for k, ((a, b), v) in enumerate(zip(spans, values)):
        lit = line[pos_i:a]
        if out[pos_o : pos_o + len(lit)] != lit:
            return "context-changed", "%r -> %r (text before slot %d differs)" % (line, out, k)
        pos_o += len(lit)
        nxt = line[b : spans[k + 1][0]] if k + 1 < len(spans) else line[b:]
        if nxt:
            j = out.find(nxt, pos_o + 1) if k + 1 < len(spans) else (len(out) - len(nxt) if out.endswith(nxt) else -1)
            if j < pos_o:
                if out[pos_o:].startswith(v):
                    return "secret-kept", "%r -> %r" % (line, out)
                return "context-changed", "%r -> %r (text after slot %d differs)" % (line, out, k)
        else:
            j = len(out)
        r = out[pos_o:j]
        if r == v or r == "":
            return "secret-kept", "%r -> %r" % (line, out)
        # (a secret that happens to be spelled by the pseudonym itself - 'Remove' in 'netconanRemoved1', a cut
        # $9$ string that is the head of every $9$ pseudonym under this salt - also occurs in the output of the
        # other instantiation, which does not hold this secret: no evidence that anything was kept)
        if len(v) >= 6 and v in r and not (other_out is not None and v in other_out):
            return "secret-inside-replacement", "%r -> %r" % (line, out)
        pos_o = j
        pos_i = b
    if out[pos_o:] != line[pos_i:]:
        return "context-changed", "%r -> %r (text after the last slot differs)" % (line, out)
    return None


def check_run(case, ev):
    salt = case["salt"]
    for k in (0, 1):
        # the equality pattern must hold as stated: different blocks are different secrets
        ids = [identity(c, v) for c, v in zip(case["classes"], case["values"][k])]
        if len(set(ids)) != len(ids) or any(v in core.builtin_reserved() for v in case["values"][k]):
            ev.evaluations += 1
            ev.excluded_domain["blocks-not-distinct-or-reserved-word"] += 1
            return None
    inst = [_instantiate(case, 0), _instantiate(case, 1)]
    res = []
    for k in (0, 1):
        r, exc = guarded(_anonymize, [x[0] for x in inst[k]], salt, bool(case.get("undo")), bool(case.get("nonl")))
        if exc is not None:
            return core.exc_finding(exc, case, "run/")
        res.append(r)
    classes = case["classes"]
    differ_all = all(a != b for a, b in zip(case["values"][0], case["values"][1]))
    nt = differ_all and any(c != "text" for c in classes)
    sig = (tuple((l["form"], l["head"], l["trail"], tuple(l["enc"]), tuple(l["blocks"])) for l in case["lines"]), tuple(classes))
    cls = ["form-" + l["form"] for l in case["lines"]] + ["class-" + c for c in classes] + ["lines%d" % len(case["lines"])]
    if any(len(l["blocks"]) > 1 for l in case["lines"]):
        cls.append("two-slot-line")
    if case.get("undo"):
        cls.append("with-undo")
    if len(set(b for l in case["lines"] for b in l["blocks"])) < sum(len(l["blocks"]) for l in case["lines"]):
        cls.append("repeated-secret")
    ev.case(sig if nt else case, nt, cls)
    _note_groups(ev, [x[0] for x in inst[0]])

    def describe(i):
        ln = case["lines"][i]
        form = S.FORM_BY_ID[ln["form"]]
        trail = form.trails[ln["trail"] % len(form.trails)]
        return "%s:%s:%s" % (ln["form"], "+".join(classes[b] for b in ln["blocks"]), "trail" if trail.strip(" ;") else "no-trail")

    # positional oracle, both instantiations
    for k in (0, 1):
        outs, _ = res[k]
        if len(outs) != len(inst[k]):
            return Finding("run/line-count-changed", "%d lines in, %d out" % (len(inst[k]), len(outs)), case)
        for i, ((line, spans, values, ln), out) in enumerate(zip(inst[k], outs)):
            form = S.FORM_BY_ID[ln["form"]]
            shift = len(line) - len(line.lstrip())
            other_out = res[1 - k][0][i] if i < len(res[1 - k][0]) and values != inst[1 - k][i][2] else None
            bad = _positional(line.strip(), [(a - shift, b - shift) for a, b in spans], values, out.strip(), form, classes, ln, other_out)
            if bad is not None:
                return Finding("pos/%s:%s" % (bad[0], describe(i)), bad[1], case)
    # secrets must not be logged
    for k in (0, 1):
        for _, msg in res[k][1]:
            for v in case["values"][k]:
                if len(v) >= 6 and v in msg:
                    return Finding("log/secret-in-log-record", "record %r contains secret %r" % (msg[:200], v), case)
    # metamorphic oracle
    if res[0][0] != res[1][0]:
        i = next(i for i, (a, b) in enumerate(zip(res[0][0], res[1][0])) if a != b)
        return Finding(
            "meta/output-depends-on-secret-content:%s" % describe(i),
            "same forms, classes and equality pattern, different secret values:\n  %r -> %r\n  %r -> %r" % (inst[0][i][0], res[0][0][i], inst[1][i][0], res[1][0][i]),
            case,
        )
    if res[0][1] != res[1][1]:
        return Finding("meta/log-depends-on-secret-content", "%r vs %r" % (res[0][1][:5], res[1][1][:5]), case)
    return None


_RX = []


def _note_groups(ev, lines):
    """Coverage statistic only (never part of a verdict): which of netconan's pattern groups is
    the first to fire on the generated lines."""
    try:
        if not _RX:
            from netconan.sensitive_item_removal import generate_default_sensitive_item_regexes

            _RX.extend(generate_default_sensitive_item_regexes())
        fired = set(ev.notes.get("groups_first_fired", []))
        for line in lines:
            text = " ".join(line.split())
            for gi, grp in enumerate(_RX):
                if any(rx.search(text) for rx, _ in grp):
                    fired.add(gi)
                    break
        ev.notes["groups_first_fired"] = sorted(fired)
        ev.notes["groups_total"] = [len(_RX)]
    except Exception:
        pass


def check_standalone(case, ev):
    """case: {tokens_before, token, tokens_after, salt}"""
    tok = case["token"]
    line = " ".join(case["before"] + [tok] + case["after"])
    r, exc = guarded(_anonymize, [line], case["salt"], False, bool(case.get("nonl")))
    if exc is not None:
        return core.exc_finding(exc, case, "run/")
    out = r[0][0]
    kw = [t for t in case["before"] + case["after"] if t in S.KEYWORDS]
    ev.case(case, bool(kw), ["$9$" if tok.startswith("$9$") else "$1$", "keywords%d" % min(len(kw), 4)] + (["paired"] if case.get("token2") else []) + (["salt-defaulted"] if case["salt"] is None else []))
    if tok not in out:
        tok2 = case.get("token2")
        if tok2 and tok2 != tok:
            # a second token of the same class and shape in the same place: identical output, and no
            # piece of either secret's body left behind
            r2, exc = guarded(_anonymize, [" ".join(case["before"] + [tok2] + case["after"])], case["salt"], False, bool(case.get("nonl")))
            if exc is not None:
                return core.exc_finding(exc, case, "run/")
            out2 = r2[0][0]
            if tok2 not in out2 and out2 != out:
                return Finding("standalone/output-depends-on-hash-content", "%r -> %r but with %r -> %r" % (line, out, tok2, out2), case)
        return None
    others_changed = [t for t in out.split() if t not in line.split()]
    if others_changed:
        ev.excluded_domain["other-secret-on-the-line"] += 1
        return None
    # attribution only (not the verdict): did an earlier form capture a reserved word and stop the search?
    why = "other"
    try:
        from netconan.sensitive_item_removal import generate_default_sensitive_item_regexes

        for grp in generate_default_sensitive_item_regexes():
            hit = False
            for rx, idx in grp:
                m = rx.search(line)
                if m:
                    hit = True
                    if idx is not None and m.group(idx).strip("\"';,[]{}") in core.builtin_reserved():
                        why = "earlier-form-captured-a-reserved-word"
            if hit:
                break
    except Exception:
        pass
    return Finding("standalone/hash-survives:%s" % why, "%r -> %r" % (line, out), case)


def check_longline(case, ev):
    """A recognised secret line at the end of a physical line longer than 64 KiB (the padding is one
    long token in front of it): the secret must be replaced exactly as on a short line."""
    form = S.FORM_BY_ID[case["form"]]
    v = case["value"]
    body, spans = S.render(form, case["head"], case["trail"], [v])
    pad = "description " + "x" * case["pad"] + " "
    line = pad + body.lstrip()
    shift = len(pad) - (len(body) - len(body.lstrip()))
    r, exc = guarded(_anonymize, [line], "Tsalt")
    if exc is not None:
        return core.exc_finding(exc, case, "run/")
    outs = r[0]
    ev.case(case, True, ["form-" + form.id, "long-line"])
    if len(outs) != 1:
        return Finding("long/line-count-changed", "one line of %d characters became %d lines" % (len(line), len(outs)), case)
    if form.mode in ("scrub", "either") and S.SCRUB in outs[0]:
        return None if v not in outs[0].replace(S.SCRUB, " ") else Finding("long/secret-kept", "secret %r kept in a %d-character line" % (v, len(line)), case)
    rs = S.extract_replacements(line, [(a + shift, b + shift) for a, b in spans], outs[0])
    # (a value of fewer than 6 characters may occur inside its own pseudonym by chance: '11' in '1467...1154...')
    if rs is None or rs[0] == v or (len(v) >= 6 and v in outs[0][len(pad) - 1 :]):
        return Finding("long/secret-kept-or-context-changed:%s" % form.id, "line of %d characters ending in %r -> ...%r" % (len(line), line[-80:], outs[0][-120:]), case)
    return None


REPLAY = {"runs": check_run, "standalone": check_standalone, "longline": check_longline}

# ---------------------------------------------------------------- generators


def _no_address(form):
    return not any(ch.isdigit() and ("." in h or ":" in h) for h in form.heads + form.trails for ch in h) and not any("1.1.1.1" in x or "1.2.3.4" in x or "::" in x or "10.0.0.1" in x for x in form.heads + form.trails)


_FORMS_NOADDR = [f for f in S.FORMS if _no_address(f)]


@st.composite
def _run_case(draw, max_lines=6):
    lines = []
    blocks = []  # dict(cls, kw, form_ok)
    # password anonymization combined with --undo (the IP stage then runs in the undo direction):
    # only line forms without addresses in their fixed text, so the context oracle still applies
    undo = draw(st.integers(0, 5)) == 0
    for _ in range(draw(st.integers(1, max_lines))):
        form = draw(st.sampled_from(_FORMS_NOADDR if undo else S.FORMS))
        bl = []
        for _s in range(form.slots):
            reuse = [i for i, b in enumerate(blocks) if b["cls"] in form.classes and b["kw"] == form.text_kw and form.reject is None and not b["rej"] and i not in bl]
            if reuse and draw(st.integers(0, 2)) == 0:
                bl.append(draw(st.sampled_from(reuse)))
            else:
                cls = draw(st.sampled_from(form.classes))
                blocks.append({"cls": cls, "kw": form.text_kw, "rej": form.reject is not None, "form": form})
                bl.append(len(blocks) - 1)
        lines.append(
            {
                "form": form.id,
                "head": draw(st.integers(0, len(form.heads) - 1)),
                "trail": draw(st.integers(0, len(form.trails) - 1)),
                "enc": list(draw(st.sampled_from(S.ENCLOSINGS))) if form.enclose and draw(st.integers(0, 2)) == 0 else ["", ""],
                "lead": draw(st.sampled_from(["", "", " ", "  ", "\t", "    "])),
                "tail_ws": draw(st.sampled_from(["", "", " ", "\t"])),
                "blocks": bl,
            }
        )
    values = [[], []]
    for which in (0, 1):
        ids = set()
        for bi, b in enumerate(blocks):
            form = b["form"]
            for attempt in range(6):
                if b["cls"] == "md5":
                    n = len(values[0][bi].split("$")[2]) if which == 1 else None
                    v = draw(S.md5_value(salt_len=n))
                elif which == 0 and attempt == 0 and b["cls"] in ("hex", "type7", "text") and draw(st.integers(0, 6)) == 0 and any(x["cls"] == b["cls"] and x["kw"] == b["kw"] for x in blocks[:bi]):
                    j = draw(st.sampled_from([j for j, x in enumerate(blocks[:bi]) if x["cls"] == b["cls"] and x["kw"] == b["kw"]]))
                    v = values[0][j].strip("\\").swapcase()  # differs from another secret only in letter case
                else:
                    _, v = draw(S.secret_for(form, b["cls"]))
                ident = identity(b["cls"], v)
                if ident not in ids and v not in core.builtin_reserved() and (form.reject is None or not form.reject(v)) and b["cls"] in S.classify(v) | ({"text"} if b["cls"] == "text" else set()):
                    break
            else:
                ident = ident + "#%d" % bi
            if which == 0 and b["cls"] == "text" and not b["kw"] and not b["rej"] and draw(st.integers(0, 5)) == 0:
                users = [l for l in lines if bi in l["blocks"]]
                if all(l["enc"] == ["", ""] and '"' not in S.FORM_BY_ID[l["form"]].heads[l["head"] % len(S.FORM_BY_ID[l["form"]].heads)] for l in users):
                    v2 = ("\\" + v) if draw(st.booleans()) else (v + "\\")
                    if v2 not in ids:
                        v, ident = v2, v2  # a lone backslash is an ordinary character of the secret
            ids.add(ident)
            values[which].append(v)
    return {"salt": draw(st.sampled_from(["Tsalt", "", "s", "_x", "QzF", None])), "lines": lines, "classes": [b["cls"] for b in blocks], "values": values, "undo": undo, "nonl": draw(st.integers(0, 3)) == 0}


_hash_token = st.one_of(S.md5_value(), S.j9_value())
# "all secret values over printable non-space ASCII excluding quote/terminator characters": hash-shaped
# tokens whose body is not crypt-64 only (the token ends in a letter or digit: no trailing punctuation
# that the line syntax could claim)
_ROUGH = [c for c in map(chr, range(33, 127)) if c not in "\"';$\\"]


@st.composite
def _hash_pair(draw):
    k = draw(st.integers(0, 3))
    if k == 0:
        n = draw(st.integers(1, 8))
        return draw(S.md5_value(salt_len=n)), draw(S.md5_value(salt_len=n))
    if k == 1:
        a = draw(S.j9_value())
        return a, draw(S.j9_value())
    n = draw(st.integers(1, 8))
    m = draw(st.integers(2, 22))
    toks = []
    for _ in range(2):
        salt = draw(S.chars(S.CRYPT64, n, n))
        body = draw(S.chars(_ROUGH, m - 1, m - 1)) + draw(st.sampled_from("abcXYZ019"))
        toks.append("$1$" + salt + "$" + body)
    return toks[0], toks[1]
_soup = st.one_of(st.sampled_from(S.KEYWORDS), st.sampled_from(S.BENIGN), st.sampled_from(["0", "5", "7", "15", "level", "3", "1.2.3.4"]))


@st.composite
def _standalone_case(draw):
    tok, tok2 = draw(_hash_pair())
    if draw(st.booleans()):
        tok, tok2 = '"' + tok + '"', '"' + tok2 + '"'
    return {"before": draw(st.lists(_soup, max_size=5)), "token": tok, "token2": tok2, "after": draw(st.lists(st.sampled_from(S.BENIGN + ["ro", "rw", "1", "7"]), max_size=2)), "salt": draw(st.sampled_from(["Tsalt", "Tsalt", None])), "nonl": draw(st.integers(0, 3)) == 0}


def t_runs(shard, nshards, seed, ev, known, n=500):
    return core.hyp_drive(_run_case(), check_run, n, seed, ev, known, check_name="runs", max_keys=8)


def t_standalone(shard, nshards, seed, ev, known, n=500):
    return core.hyp_drive(_standalone_case(), check_standalone, n, seed, ev, known, check_name="standalone")


@st.composite
def _long_case(draw):
    form = draw(st.sampled_from([f for f in S.FORMS if f.slots == 1 and "exact" not in f.text_kw]))
    c, v = draw(S.secret_for(form))
    head = draw(st.integers(0, len(form.heads) - 1))
    body, _ = S.render(form, head, 0, [v])
    # the 65536-character mark falls somewhere inside the keyword / secret part of the line
    pad = 65536 * draw(st.sampled_from([1, 1, 2])) - len("description ") - 1 - draw(st.integers(0, len(body) + 2))
    return {"form": form.id, "head": head, "trail": 0, "value": v, "cls": c, "pad": pad}


def t_longline(shard, nshards, seed, ev, known, n=40):
    return core.hyp_drive(_long_case(), check_longline, n, seed, ev, known, check_name="longline")


def plan(tier):
    q = tier == "quick"
    return [
        Task("runs", t_runs, shards=8 if q else 16, n=700 if q else 12000),
        Task("standalone", t_standalone, shards=2 if q else 16, n=600 if q else 20000),
        Task("longline", t_longline, shards=2 if q else 8, n=25 if q else 800),
    ]
