"""C06 - address substitution in text is complete and exact."""

import itertools

from hypothesis import strategies as st

from .. import core
from ..core import Finding, Task, guarded
from ..gen import ip as G
from ..ref import tokens as T

ID = "C06"
RULE = (
    "lines: Hypothesis lines of standalone tokens (IPv4/IPv6 in every spelling incl. leading zeros, upper case, "
    "/len, '::' at every legal position, IPv4 tails; near-misses; words) joined by arbitrary delimiters, under "
    "generated configurations; contexts: EVERY string left+core+right with left/right ranging over all strings of "
    "length <= 1 (quick) / <= 2 (thorough) over the boundary alphabet '0125 69afg.:/_- ' plus a non-ASCII digit and letter, and core over a table of "
    "address / near-miss cores (all i::j group splits, 7/8/9 groups, 255/256, 3/4/5 parts, leading zeros, /len, IPv4 "
    "tails, zones); atoms: EVERY sequence of <= 4 (quick) / <= 6 (thorough) atoms of {1,25,255,256,00,a,g,.,:,::,/,space}. "
    "longline: single physical lines of 7000/20000 address tokens (well over 64 KiB). Each string goes through anonymize_ip_addr (IPv6 then IPv4) and through FileAnonymizer.anonymize_io (a quarter of the "
    "generated lines in the undo direction); expected text "
    "from the independent scanner vf/ref/tokens.py + a fresh anonymizer's integer image. Non-trivial = string containing a "
    "valid address in non-canonical spelling or next to a non-space delimiter, or a near-miss; distinct by string."
)
ASSUMPTIONS = [
    "token rules as stated in the property (maximal runs of ASCII letters, digits and '.' or ':'); super-tokens in which an IPv6 token is valid but the whole is not are unspecified and skipped (excluded_domain.mixed_ambiguous)",
    "the integer-level image comes from a fresh anonymizer (C01-C05 judge the mapping itself)",
]

_CTX = {}


def _ctx(cfg_key, cfg):
    """Shared anonymizers per worker for the enumerations (the mapping is pure: C03)."""
    if cfg_key not in _CTX:
        _CTX[cfg_key] = {
            "a4": G.mk4(cfg),
            "a6": G.mk6(cfg),
            "r4": G.mk4(cfg),
            "r6": G.mk6(cfg),
            "fa": G.file_anonymizer(cfg),
            "fu": G.file_anonymizer(cfg, True),
        }
    return _CTX[cfg_key]


def _attribute(line, want, got, cfg, r4, r6, undo=False):
    """Name the class of the first super-token that was mishandled."""
    pos = 0
    gpos = 0
    preserved = lambda n: any(G.in_net(n, c) for c in cfg.get("networks") or [])
    for i, j, kind, val in T.scan(line):
        sep = line[pos:i]
        if got[gpos : gpos + len(sep)] != sep:
            return "text-between-tokens", "changed"
        gpos += len(sep)
        tok = line[i:j]
        exp, _ = T.expected(tok, r4.deanonymize if undo else r4.anonymize, r6.deanonymize if undo else r6.anonymize, preserved)
        pos = j
        if exp is None:
            return "ambiguous", "?"
        if got[gpos : gpos + len(exp)] == exp and (gpos + len(exp) == len(got) or got[gpos + len(exp)] not in T.SUPER):
            gpos += len(exp)
            continue
        if exp == tok:
            return kind + ("" if kind != "plain" else ("-" + _plain_kind(tok))), "wrongly-changed"
        if got[gpos : gpos + len(tok)] == tok:
            return kind, "left-unchanged"
        return kind, "partly-or-wrongly-replaced"
    return "trailing-text", "changed"


def _plain_kind(tok):
    if tok.count(".") >= 3 and ":" not in tok:
        return "v4-near-miss"
    if ":" in tok:
        return "v6-near-miss"
    return "word"


def run_both(line, cx, undo=False, nonl=False):
    from netconan.ip_anonymization import anonymize_ip_addr

    got, exc = guarded(lambda: anonymize_ip_addr(cx["a4"], anonymize_ip_addr(cx["a6"], line, undo), undo))
    if exc is not None:
        return None, None, exc
    got2, exc = guarded(core.run_io, cx["fu"] if undo else cx["fa"], line + "\n", nonl)
    if exc is not None:
        return None, None, exc
    return got, got2[:-1] if got2.endswith("\n") else got2, None


def check_line(case, ev, cx=None):
    """case: {line, cfg}"""
    line, cfg = case["line"], case["cfg"]
    if cx is None:
        cx, exc = guarded(lambda: {"a4": G.mk4(cfg), "a6": G.mk6(cfg), "r4": G.mk4(cfg), "r6": G.mk6(cfg), "fa": G.file_anonymizer(cfg), "fu": G.file_anonymizer(cfg, True)})
        if exc is not None:
            return core.exc_finding(exc, case, "ctor/")
    preserved = lambda n: any(G.in_net(n, c) for c in cfg.get("networks") or [])
    undo = bool(case.get("undo"))
    m4, m6 = (cx["r4"].deanonymize, cx["r6"].deanonymize) if undo else (cx["r4"].anonymize, cx["r6"].anonymize)
    if case.get("img6") is not None:
        # an IPv6 token whose replacement is a chosen value (below 2**32, at the 32/64-bit marks, ...):
        # the token is the pre-image of that value under the mapping of this direction
        import ipaddress

        pre, exc = guarded(cx["r6"].anonymize if undo else cx["r6"].deanonymize, case["img6"])
        if exc is not None:
            return core.exc_finding(exc, case, "subst/")
        line = line + " " + str(ipaddress.IPv6Address(pre))
    want, classes = T.expected(line, m4, m6, preserved)
    if want is None:
        ev.evaluations += 1
        ev.excluded_domain["mixed_ambiguous"] += 1
        return None
    toks = [(i, j, k) for i, j, k, _ in T.scan(line)]
    nt = False
    for i, j, k in toks:
        if k in ("v4", "v6", "v6tail", "mixed_v4"):
            left = line[i - 1] if i else " "
            right = line[j] if j < len(line) else " "
            if left != " " or right != " " or k in ("v6tail", "mixed_v4") or (k == "v4" and line[i:j] != G.v4_canon(T.v4_value(line[i:j]))):
                nt = True
        elif k == "plain" and _plain_kind(line[i:j]) != "word":
            nt = True
    ev.case(line, nt, sorted(set(classes)) + (["undo-direction"] if undo else []) + (["chosen-ipv6-image"] if case.get("img6") is not None else []))
    got, got_io, exc = run_both(line, cx, undo, bool(case.get("nonl")))
    if exc is not None:
        return core.exc_finding(exc, case, "subst/")
    if case.get("both") and cx is not None:
        # the other direction for the same text on the same objects afterwards (library use)
        m4b, m6b = (cx["r4"].anonymize, cx["r6"].anonymize) if undo else (cx["r4"].deanonymize, cx["r6"].deanonymize)
        want_b, _ = T.expected(line, m4b, m6b, preserved)
        got_b, _, exc = run_both(line, cx, not undo)
        if exc is not None:
            return core.exc_finding(exc, case, "subst/")
        if want_b is not None and got_b != want_b:
            return Finding("subst/other-direction-on-the-same-objects-wrong", "cfg=%r line %r: after %s, %s gives %r, expected %r" % (cfg, line, "undo" if undo else "anonymize", "anonymize" if undo else "undo", got_b, want_b), case)
    for via, g in (("line", got), ("io", got_io)):
        if g != want:
            cls, side = _attribute(line, want, g, cfg, cx["r4"], cx["r6"], undo)
            return Finding("subst/%s:%s%s%s" % (cls, side, "" if got == got_io else ":only-via-" + via, ":undo" if undo else ""), "cfg=%r line %r -> %r (via %s), expected %r" % (cfg, line, g, via, want), case)
    return None


_ENUM_CFG = {"salt": "s", "B4": 8, "B6": 8, "prefixes": None, "networks": ["192.168.0.0/16"], "mode": "enum"}


def check_enum(case, ev):
    return check_line({"line": case["line"], "cfg": _ENUM_CFG}, ev, _ctx("enum", _ENUM_CFG))


# secret-bearing tails (whole-match scrub rules and in-place rules): with -p and -a/-u in one run the
# address tokens in front of them are substituted exactly as without -p
PWD_TAILS = ["message-digest-key 1 md5 7 0822455D0A16", "key-string 7 0822455D0A16", "ldap-login-password Zq9xWv7", "cable shared-secret Zq9xWv7", "wpa-psk ascii 7 0822455D0A16",
             "password Zq9xWv7", "md5 1 key Zq9xWv7", "simple-password Zq9xWv7", "encrypted-password Zq9xWv7", "secret 5 $1$abcd$0123456789012345678901", "key 7 0822455D0A16"]
PWD_HEADS = ["area 1 virtual-link", "ip ospf", "peer", "neighbor", "via", "", "interface x"]


def check_pwdtail(case, ev):
    """case: {cfg, head, toks: [text], tail, undo}"""
    cfg = case["cfg"]
    undo = bool(case.get("undo"))
    prefix = " ".join(([PWD_HEADS[case["head"]]] if PWD_HEADS[case["head"]] else []) + list(case["toks"]))
    line = prefix + " " + PWD_TAILS[case["tail"]]
    r4, exc = guarded(G.mk4, cfg)
    if exc is not None:
        return core.exc_finding(exc, case, "ctor/")
    r6 = G.mk6(cfg)
    preserved = lambda n: any(G.in_net(n, c) for c in cfg.get("networks") or [])
    want, classes = T.expected(prefix, *((r4.deanonymize, r6.deanonymize) if undo else (r4.anonymize, r6.anonymize)), preserved)
    if want is None:
        ev.excluded_domain["mixed_ambiguous"] += 1
        return None
    fa, exc = guarded(G.file_anonymizer, cfg, undo, anon_pwd=True)
    if exc is not None:
        return core.exc_finding(exc, case, "ctor/")
    got, exc = guarded(core.run_io, fa, line + "\n", bool(case.get("nonl")))
    if exc is not None:
        return core.exc_finding(exc, case, "subst/")
    ev.case(line, True, ["with-password-stage", "tail%02d" % case["tail"]] + (["undo-direction"] if undo else []) + sorted(set(classes)))
    if got.strip() == "! Sensitive line SCRUBBED by netconan":
        ev.excluded_domain["whole-line-scrubbed-by-the-password-stage"] += 1  # the documented removal of the line
        return None
    if not got.startswith(want + " "):
        return Finding("subst/address-in-front-of-a-secret-not-substituted-with-password-stage-on:%s" % ("scrub-rule" if "SCRUBBED" in got else "in-place-rule"), "cfg=%r line %r -> %r, expected it to start with %r" % (cfg, line, got, want), case)
    return None


REPLAY = {"pwdtail": check_pwdtail, "longline": check_line, "lines": check_line, "contexts": check_enum, "atoms": check_enum}

# ---------------------------------------------------------------- enumerated spaces

BOUNDARY = "0125" + "69" + "afg" + ".:/_- " + "\u0664\u00e9"  # + a non-ASCII digit and a non-ASCII letter (both delimiters)


def cores():
    c = ["1.2.3.4", "10.0.0.1", "192.168.1.1", "255.255.255.0", "0.0.0.0", "9.9.9.9", "25.25.25.255", "1.2.3.255", "1.2.3.256", "256.1.1.1", "299.1.1.1", "1.2.3", "1.2.3.4.5",
         "01.02.03.04", "001.002.003.004", "0001.2.3.4", "1.2.3.0004", "1.2.3.04", "1.2.3.4/24", "1.2.3.4/33", "1.2.3.4/", "1..2.3", "1.2.3.4/5/6", "100.200.255.6", "1.2.3.4a", "a1.2.3.4",
         "1.2.3.4:80", "1.2.3.4:5.6.7.8", "aa:bb:cc:dd:ee:ff", "0011.2233.4455", "12:34:56", "12:34"]
    g = ["1", "a2", "B3", "0c04", "5", "ffff", "7", "8"]
    for i in range(0, 8):
        for j in range(0, 8 - i):
            if i + j <= 7:
                c.append(":".join(g[:i]) + "::" + ":".join(g[8 - j :] if j else []))
    c += [":".join(g), ":".join(g[:7]), ":".join(g + ["9"]), "1::2::3", "12345::1", "g::1", "1:2:3:4:5:6:7::", "::1/128", "2001:db8::1/64", "FE80::1", "fe80::1%eth0", "fe80::%1", "fe80:%x",
          "::ffff:1.2.3.4", "::1.2.3.4", "1:2:3:4:5:6:1.2.3.4", "1::1.2.3.4", "64:ff9b::10.0.0.1", "1:2:3:4:5::1.2.3.4", "::ffff:0:1.2.3.4", "::ffff:1.2.3.256", "1:2:3:4:5:6:7:1.2.3.4", "::01.2.3.4", "1:2::3:1.2.3.4/96"]
    out = []
    for x in c:
        if x not in out:
            out.append(x)
    return out


def _affixes(maxlen):
    out = [""]
    for n in range(1, maxlen + 1):
        out += ["".join(p) for p in itertools.product(BOUNDARY, repeat=n)]
    return out


def t_contexts(shard, nshards, seed, ev, known, maxlen=1):
    aff = _affixes(maxlen)
    cs = cores()
    def gen():
        k = 0
        for core_ in cs:
            for l in aff:
                k += 1
                if k % nshards != shard:
                    continue
                for r in aff:
                    yield {"line": l + core_ + r}
    fs = core.enum_drive(gen(), check_enum, ev, known, "contexts", max_keys=8)
    ev.exhaustive["contexts(%d cores x all left/right strings of length <= %d over %d boundary chars)" % (len(cs), maxlen, len(BOUNDARY))] = len(cs) * len(aff) * len(aff)
    return fs


ATOMS = ["1", "25", "255", "256", "00", "a", "g", ".", ":", "::", "/", " "]


def t_atoms(shard, nshards, seed, ev, known, maxatoms=4):
    def gen():
        k = 0
        for n in range(1, maxatoms + 1):
            for t in itertools.product(ATOMS, repeat=n):
                k += 1
                if k % nshards == shard:
                    yield {"line": "".join(t)}
    fs = core.enum_drive(gen(), check_enum, ev, known, "atoms", max_keys=8)
    ev.exhaustive["atom_strings(all sequences of <= %d atoms of %d)" % (maxatoms, len(ATOMS))] = sum(len(ATOMS) ** n for n in range(1, maxatoms + 1))
    return fs


@st.composite
def _line_case(draw):
    cfg = draw(G.config())
    tl = draw(G.token_line(cfg=cfg, allow_v4tail=True, max_tokens=5))
    line = tl["line"]
    if draw(st.integers(0, 5)) == 0:
        # glue something to a token: exercises the boundary rules with arbitrary characters
        i = draw(st.integers(0, len(line)))
        line = line[:i] + draw(st.text(alphabet=st.sampled_from(list(BOUNDARY) + ["é", "\t", "%", "x", "Z"]), min_size=1, max_size=2)) + line[i:]
    img6 = draw(st.one_of(st.sampled_from([0, 1, 0xFFFF, 0x0A010203, 0xFFFFFFFF, 0x100000000, (0xFFFF << 32) | 0x0A010203, 1 << 64, (1 << 128) - 1]), G.u32)) if draw(st.integers(0, 7)) == 0 else None
    return {"img6": img6, "line": line, "cfg": cfg, "undo": draw(st.integers(0, 3)) == 0, "both": draw(st.integers(0, 3)) == 0, "nonl": draw(st.integers(0, 3)) == 0}


@st.composite
def _pwdtail_case(draw):
    import ipaddress

    cfg = draw(G.config())
    toks = []
    for _ in range(draw(st.integers(1, 3))):
        if draw(st.integers(0, 2)) == 0:
            toks.append(str(ipaddress.IPv6Address(draw(G.v6_int))))
        else:
            toks.append(G.v4_canon(draw(G.addr_near(G.effective_prefixes(cfg) or ["10.0.0.0/8"])) if draw(st.booleans()) else draw(G.u32)))
    return {"cfg": cfg, "head": draw(st.integers(0, len(PWD_HEADS) - 1)), "toks": toks, "tail": draw(st.integers(0, len(PWD_TAILS) - 1)), "undo": draw(st.integers(0, 3)) == 0, "nonl": draw(st.integers(0, 3)) == 0}


def t_pwdtail(shard, nshards, seed, ev, known, n=300):
    return core.hyp_drive(_pwdtail_case(), check_pwdtail, n, seed, ev, known, check_name="pwdtail")


def t_lines(shard, nshards, seed, ev, known, n=500):
    return core.hyp_drive(_line_case(), check_line, n, seed, ev, known, check_name="lines", max_keys=8)


def t_longline(shard, nshards, seed, ev, known, ntok=7000):
    """Physical lines far longer than 64 KiB made of address tokens (a reader that cuts long
    lines into pieces would split tokens)."""
    import ipaddress

    cases = []
    for k in range(nshards):
        if k % nshards != shard:
            continue
        toks = []
        for i in range(ntok):
            h = core.derive("ll", seed, k, i)
            if i % 5 == 4:
                toks.append(str(ipaddress.IPv6Address((h << 64 | h) & G.M128)))
            elif i % 7 == 3:
                toks.append("%03d.%03d.%03d.%03d" % ((h >> 24) & 255, (h >> 16) & 255, (h >> 8) & 255, h & 255))
            else:
                toks.append(G.v4_canon(h & G.M32))
        sep = [" ", ",", ";", " "][k % 4]
        cases.append({"line": sep.join(toks), "cfg": {"salt": "long%d" % k, "B4": [8, 0][k % 2], "B6": 8, "prefixes": None, "networks": None, "mode": "default"}, "undo": k % 3 == 2})
    return core.enum_drive(cases, check_line, ev, known, "longline")


def plan(tier):
    q = tier == "quick"
    return [
        Task("lines", t_lines, shards=4 if q else 16, n=500 if q else 30000),
        Task("contexts", t_contexts, shards=6 if q else 16, maxlen=1 if q else 2),
        Task("atoms", t_atoms, shards=4 if q else 16, maxatoms=4 if q else 6),
        Task("longline", t_longline, shards=2 if q else 8, ntok=7000 if q else 20000),
        Task("pwdtail", t_pwdtail, shards=2 if q else 8, n=400 if q else 8000),
    ]
