"""C09 - secret replacements are format-compliant and keep their context."""

import re

from hypothesis import strategies as st

from .. import core
from ..core import Finding, Task, guarded
from ..gen import secrets as S
from ..ref import juniper9 as J
from ..ref import type7 as T7

ID = "C09"
RULE = (
    "single: Hypothesis one-secret runs: every format class (type-7 salts 00-15, md5 salt lengths 1-8, all 65 $9$ salt "
    "characters with arbitrary filler, lengths 1-64), every admissible line form with its optional parts, every enclosing "
    "combination, indentation, any netconan salt (its first character feeds the $9$ replacement). Oracle: independent "
    "decoders - type 7: two-digit salt <= 52 + hex pairs, own decoder and passlib agree, printable; $1$: passlib identify, "
    "salt of the original's length, 22 crypt characters; $6$: passlib identify, 86 crypt characters, no rounds field; $9$: "
    "harness validator/decoder; numeric: [0-9]+; hex: [0-9a-fA-F]+; replacement != original; the output equals the input "
    "with exactly the secret span replaced. pair: a secret in an encoded form ($9$ / type 7, harness encoders) and the "
    "same plaintext in clear in one run, either order - each replacement keeps its own format. grid: class x parameter (16+8+65) x 3 lengths x 3 salts, enumerated. "
    "Non-trivial = unambiguous non-text class, or any class with non-empty enclosing text; distinct by case."
)
ASSUMPTIONS = [
    "passlib (identify, cisco_type7.decode) is in the trusted base, as the property says; the $9$ and type-7 codecs of the harness are independent of netconan",
    "a value that belongs to several classes (all-digit type 7, all-digit hex) may be replaced in any of them",
    "$1$ salts are 1-8 characters (longer ones are malformed input: C14)",
]

_CRYPT = set(S.CRYPT64)


def format_ok(cls, orig, r):
    """None if r is a well-formed member of class cls (with orig's parameters), else a reason."""
    if cls == "text":
        return None if r and not any(ch.isspace() for ch in r) else "empty-or-spaces"
    if cls == "numeric":
        return None if re.fullmatch(r"[0-9]+", r) else "not-all-digits"
    if cls == "hex":
        return None if re.fullmatch(r"[0-9a-fA-F]+", r) else "not-hexadecimal"
    if cls == "type7":
        try:
            p = T7.decode(r)
        except ValueError as e:
            return "type7-not-decodable(%s)" % e
        from passlib.hash import cisco_type7

        try:
            p2 = cisco_type7.decode(r)
        except Exception as e:  # noqa
            return "type7-passlib-rejects(%s)" % type(e).__name__
        if p != p2:
            return "type7-decoders-disagree"
        if not p or not all(" " <= c <= "~" for c in p):
            return "type7-plaintext-not-printable"
        return None
    if cls == "md5":
        from passlib.hash import md5_crypt

        parts = r.split("$")
        if len(parts) != 4 or parts[0] != "" or parts[1] != "1":
            return "md5-shape"
        if len(parts[2]) != len(orig.split("$")[2]):
            return "md5-salt-length-changed"
        if len(parts[3]) != 22 or not set(parts[3] + parts[2]) <= _CRYPT:
            return "md5-digest-shape"
        return None if md5_crypt.identify(r) else "md5-passlib-does-not-identify"
    if cls == "sha512":
        from passlib.hash import sha512_crypt

        parts = r.split("$")
        if len(parts) != 4 or parts[1] != "6":
            return "sha512-shape(rounds field?)"
        if len(parts[3]) != 86 or not set(parts[3] + parts[2]) <= _CRYPT:
            return "sha512-digest-shape"
        return None if sha512_crypt.identify(r) else "sha512-passlib-does-not-identify"
    if cls == "j9":
        why = J.structure(r)
        if why is not None:
            return "j9-ill-formed(%s)" % why
        return None
    return "unknown-class"


def check_single(case, ev):
    from netconan.anonymize_files import FileAnonymizer

    form = S.FORM_BY_ID[case["form"]]
    v, c = case["value"], case["cls"]
    line, spans = S.render(form, case["head"], case["trail"], [v], tuple(case["enc"]), case["lead"], case["tail_ws"])
    if case.get("pad"):
        # one long token in front of the form: the physical line is longer than 64 KiB and a multiple of
        # 65536 falls into the keyword / secret part (built here so that the case stays small)
        ctx = "description " + "x" * case["pad"]
    else:
        ctx = case.get("context")
    if ctx:
        # non-ASCII text before the recognised form (a prompt, a description): kept as it is
        rest = line[len(case["lead"]) :]
        cut = len(rest) - len(rest.lstrip())  # heads that start with a blank: no double blank after the context
        delta = len(ctx) + 1 - cut
        line = case["lead"] + ctx + " " + rest.lstrip()
        spans = [(a + delta, b + delta) for a, b in spans]
    if case.get("via") == "file":
        import os
        import shutil
        import tempfile

        from netconan.anonymize_files import anonymize_files

        d = tempfile.mkdtemp(prefix="vf-c09-")
        try:
            with open(os.path.join(d, "in.cfg"), "w", encoding="utf-8", newline="") as fh:
                fh.write(line + "\n")
            _, exc = guarded(anonymize_files, os.path.join(d, "in.cfg"), os.path.join(d, "out.cfg"), True, False, salt=case["salt"], sensitive_words=case.get("words") or None)
            if exc is not None:
                return core.exc_finding(exc, case, "run/")
            try:
                out = open(os.path.join(d, "out.cfg"), "rb").read().decode("utf-8")
            except (OSError, UnicodeDecodeError) as e:
                return Finding("context/output-file-not-readable-as-utf-8", "%r: %s" % (line, e), case)
        finally:
            shutil.rmtree(d, ignore_errors=True)
    else:
        fa, exc = guarded(lambda: FileAnonymizer(anon_pwd=True, anon_ip=False, salt=case["salt"], sensitive_words=case.get("words") or None))
        if exc is not None:
            return core.exc_finding(exc, case, "ctor/")
        out, exc = guarded(core.run_io, fa, line + "\n", bool(case.get("nonl")))
        if exc is not None:
            return core.exc_finding(exc, case, "run/")
    out = out[:-1] if out.endswith("\n") else out
    if case.get("words"):
        # a listed word that the pseudonym itself spells ($9$ strings of related plaintexts share whole groups
        # of characters) is outside the word domain (C10): the word stage must then rewrite the pseudonym
        ref, exc = guarded(lambda: core.run_io(FileAnonymizer(anon_pwd=True, anon_ip=False, salt=case["salt"]), line + "\n"))
        if exc is None and any(w.lower() in ref.lower() for w in case["words"]):
            ev.excluded_domain["listed-word-spelled-by-the-pseudonym"] += 1
            return None
    classes = S.classify(v) if c != "text" else {"text"}
    amb = len(classes - {"hex"} if "type7" in classes and c == "type7" else classes) > 1
    enc = tuple(case["enc"]) != ("", "") and form.enclose
    ev.case(case, (c != "text" and not amb) or enc, ["class-" + c, "form-" + form.id, "via-" + case.get("via", "io")] + (["non-ascii-context"] if case.get("context") else []) + (["line-longer-than-64KiB"] if case.get("pad") else []) + (["sensitive-word-inside-the-secret"] if case.get("words") else []) + (["enclosed"] if enc else []) + (["ambiguous"] if amb else []))
    lead_ws = line[: len(line) - len(line.lstrip())]
    tail_ws = line[len(line.rstrip()) :]
    if not out.startswith(lead_ws) or not out.endswith(tail_ws) or out[len(lead_ws) : len(out) - len(tail_ws) or None].strip() != out.strip():
        return Finding("context/outer-whitespace-changed", "%r -> %r" % (line, out), case)
    shift = len(lead_ws)
    if form.mode in ("scrub", "either") and S.SCRUB in out:
        if v in out.replace(S.SCRUB, " "):
            return Finding("context/secret-kept-in-scrubbed-line", "%r -> %r" % (line, out), case)
        return None
    rs = S.extract_replacements(line.strip(), [(a - shift, b - shift) for a, b in spans], out.strip())
    if rs is None:
        return Finding("context/text-around-secret-changed:%s" % ("enclosed" if enc else "bare"), "%r -> %r" % (line, out), case)
    r = rs[0]
    if r == v:
        return Finding("format/not-replaced:%s:%s" % (form.id, c), "%r -> %r" % (line, out), case)
    # admissible classes for the replacement
    admissible = {c} | ({"numeric"} if v.isdigit() else set()) | ({"hex"} if c == "numeric" and False else set())
    if c in ("hex", "type7") and v.isdigit():
        admissible.add("numeric")
    if c == "hex" and "type7" in S.classify(v):
        admissible.add("type7")
    if c == "type7":
        admissible.add("type7")
    reasons = {k: format_ok(k, v, r) for k in admissible}
    if all(x is not None for x in reasons.values()):
        return Finding("format/%s:%s" % (c, reasons[c].split("(")[0]), "%r -> %r: replacement %r is not a %s value (%s)" % (line, out, r, c, reasons[c]), case)
    return None


def check_pair(case, ev):
    """Two lines in one run: a secret in an encoded form ($9$ or type 7, harness encoder) and the
    same plaintext in clear, in either order.  Each replacement must keep its own format."""
    from netconan.anonymize_files import FileAnonymizer

    items = case["items"]  # [{form, head, trail, value, cls}, {...}]
    lines = []
    for it in items:
        form = S.FORM_BY_ID[it["form"]]
        lines.append(S.render(form, it["head"], it["trail"], [it["value"]], ("", ""), "", ""))
    fa, exc = guarded(lambda: FileAnonymizer(anon_pwd=True, anon_ip=False, salt=case["salt"]))
    if exc is not None:
        return core.exc_finding(exc, case, "ctor/")
    out, exc = guarded(core.run_io, fa, "".join(l[0] + "\n" for l in lines))
    if exc is not None:
        return core.exc_finding(exc, case, "run/")
    outs = out.split("\n")[:-1]
    order = "encoded-first" if items[0]["cls"] in ("j9", "type7") else "clear-first"
    ev.case(case, True, [order, "enc-" + [i["cls"] for i in items if i["cls"] in ("j9", "type7")][0], "clear-" + [i["cls"] for i in items if i["cls"] not in ("j9", "type7")][0]])
    if len(outs) != 2:
        return Finding("pair/line-count", repr(outs), case)
    for k, (it, (line, spans), o) in enumerate(zip(items, lines, outs)):
        rs = S.extract_replacements(line, spans, o)
        if rs is None or rs[0] == it["value"]:
            return Finding("pair/not-replaced:%s" % it["cls"], "%r -> %r" % (line, o), case)
        why = format_ok(it["cls"], it["value"], rs[0])
        if why is not None:
            other = items[1 - k]
            return Finding(
                "pair/format-lost:%s-secret-%s-its-%s-encoding" % ("clear" if it["cls"] in ("numeric", "hex") else it["cls"], "after" if k == 1 else "before", other["cls"]),
                "lines %r -> %r: the %s value %r became %r (%s)" % ([l[0] for l in lines], outs, it["cls"], it["value"], rs[0], why),
                case,
            )
    return None


def check_refeed(case, ev):
    """netconan's own output fed back in, in another order (anonymized configurations that were merged or
    reordered and are anonymized again): every replacement still keeps the format of what it replaces.
    case: {items: [{form, head, trail, value, cls}], perm: [indices], salt}"""
    from netconan.anonymize_files import FileAnonymizer

    items = case["items"]

    def run(values):
        lines = []
        for it, v in zip(items_now, values):
            form = S.FORM_BY_ID[it["form"]]
            lines.append(S.render(form, it["head"], it["trail"], [v], ("", ""), "", ""))
        fa, exc = guarded(lambda: FileAnonymizer(anon_pwd=True, anon_ip=False, salt=case["salt"]))
        if exc is not None:
            return None, core.exc_finding(exc, case, "ctor/")
        out, exc = guarded(core.run_io, fa, "".join(l[0] + "\n" for l in lines))
        if exc is not None:
            return None, core.exc_finding(exc, case, "run/")
        outs = out.split("\n")[:-1]
        if len(outs) != len(lines):
            return None, Finding("refeed/line-count", repr(outs), case)
        rs = []
        for (line, spans), o in zip(lines, outs):
            r = S.extract_replacements(line, spans, o)
            if r is None:
                return None, Finding("refeed/context-changed", "%r -> %r" % (line, o), case)
            rs.append(r[0])
        return rs, None

    items_now = items
    first, f = run([it["value"] for it in items])
    if f is not None:
        return f
    perm = [p for p in case["perm"] if p < len(items)]
    perm += [i for i in range(len(items)) if i not in perm]
    items_now = [items[p] for p in perm]
    second, f = run([first[p] for p in perm])
    if f is not None:
        return f
    ev.case(case, perm != sorted(perm) and len({it["cls"] for it in items}) < len(items), ["own-output-fed-back", "items%d" % len(items)] + (["reordered"] if perm != sorted(perm) else []))
    for p, r1, r2 in zip(perm, [first[p] for p in perm], second):
        it = items[p]
        why = format_ok(it["cls"], it["value"], r2)
        if why is not None and format_ok(it["cls"], it["value"], r1) is None:
            return Finding("refeed/format-lost-when-own-output-is-anonymized-again:%s" % it["cls"], "first run %r -> %r; second run (order %r) %r -> %r: not a %s value (%s)" % (it["value"], r1, perm, r1, r2, it["cls"], why), case)
    return None


REPLAY = {"refeed": check_refeed, "single": check_single, "grid": check_single, "pair": check_pair}

_FORMS1 = [f for f in S.POS_FORMS if f.slots == 1]
_FORMS_ALL1 = [f for f in S.FORMS if f.slots == 1]
_salts = st.one_of(st.sampled_from(["Tsalt", "", "s", "_x", "QzF", "iH", "s@lty", "a_b", "n+1", "1!", "é"]), st.text(max_size=6), st.sampled_from(J.ALPHABET))


@st.composite
def _case(draw):
    form = draw(st.sampled_from(_FORMS1 if draw(st.integers(0, 4)) else _FORMS_ALL1))
    c, v = draw(S.secret_for(form))
    if c == "j9" and draw(st.integers(0, 2)) == 0:
        # plaintexts over all code points 1..255 (control characters, NBSP, DEL, ...), lengths up to 64
        plain = "".join(chr(x) for x in draw(st.lists(st.one_of(st.integers(1, 255), st.sampled_from([9, 27, 7, 127, 160, 255, 1])), min_size=1, max_size=draw(st.sampled_from([4, 16, 64])))))
        v = draw(S.j9_value(plain=plain, damaged=False))
    if c == "type7" and draw(st.integers(0, 2)) == 0:
        from ..ref import type7 as _T7

        plain = draw(S.chars(S.TEXT_END + " ", 20, 64))  # long type-7 secrets
        v = _T7.encode(plain, draw(st.integers(0, 15)))
        while v.isdigit():
            plain += "x"
            v = _T7.encode(plain, 3)
    if c in ("text", "hex", "numeric") and "exact" not in form.text_kw and draw(st.integers(0, 9)) == 0:
        # long values (up to 64 characters)
        extra = draw(S.chars({"text": S.NONHEX_LETTERS, "hex": "0123456789abcdef", "numeric": "0123456789"}[c], 20, 48))
        v = v + extra
    words = []
    if draw(st.integers(0, 2)) == 0:
        # sensitive words given as well (-p -w): a listed word that happens to occur inside the secret.
        # Words as in C10's domain (start and end with a letter outside a-f, no run of six hex digits), five
        # characters or more so that no pseudonym spells one by chance, and not part of 'netconanRemoved'
        import re as _re

        cand = [v[i : i + n] for n in (5, 6) for i in range(0, max(0, len(v) - n + 1))]
        cand = [w for w in cand if w[0].lower() in "ghijklmnopqrstuvwxyz" and w[-1].lower() in "ghijklmnopqrstuvwxyz" and w.isalnum() and w.isascii() and not _re.search(r"[0-9a-fA-F]{6}", w) and w.lower() not in "netconanremoved"]
        if cand:
            w = draw(st.sampled_from(cand))
            words = [draw(st.sampled_from([w, w.lower(), w.upper()]))] + (["Kwyjibo"] if draw(st.booleans()) else [])
    return {
        "nonl": draw(st.integers(0, 3)) == 0,
        "words": words,
        "form": form.id,
        "head": draw(st.integers(0, len(form.heads) - 1)),
        "trail": draw(st.integers(0, len(form.trails) - 1)),
        "enc": list(draw(st.sampled_from(S.ENCLOSINGS))) if form.enclose and draw(st.booleans()) else ["", ""],
        "lead": draw(st.sampled_from(["", "", " ", "   ", "\t"])),
        "tail_ws": draw(st.sampled_from(["", "", " ", "\t"])),
        "value": v,
        "cls": c,
        "salt": draw(_salts),
        "context": draw(st.sampled_from(["caf\u00e9#", "\u00e0", "\u00c5re-gw>", "r\u00e9seau \u0420\u0424", "\u0105\u0119", "\u65e5\u672c"])) if draw(st.integers(0, 3)) == 0 else None,
        "via": draw(st.sampled_from(["io", "io", "file"])),
    }


@st.composite
def _pair_case(draw):
    ccls = draw(st.sampled_from(["numeric", "hex", "text"]))
    plain = draw({"numeric": S.numeric_value(), "hex": S.hex_value(), "text": S.text_value(max_size=10, alphabet_mid=S.TEXT_END)}[ccls])
    ecls = draw(st.sampled_from(["j9", "type7"]))
    enc = draw(S.j9_value(plain=plain, damaged=False)) if ecls == "j9" else T7.encode(plain, draw(st.integers(0, 15)))
    if ecls == "type7" and enc.isdigit():
        ecls, enc = "j9", draw(S.j9_value(plain=plain, damaged=False))
    forms = [f for f in _FORMS1 if "exact" not in f.text_kw and f.reject is None and "alphabet_mid" not in f.text_kw]

    def item(c, v):
        f = draw(st.sampled_from([f for f in forms if c in f.classes]))
        return {"form": f.id, "head": draw(st.integers(0, len(f.heads) - 1)), "trail": draw(st.integers(0, len(f.trails) - 1)), "value": v, "cls": c}

    items = [item(ecls, enc), item(ccls, plain)]
    if draw(st.booleans()):
        items.reverse()
    return {"items": items, "salt": draw(st.sampled_from(["Tsalt", "", "s", "QzF"]))}


def t_longline(shard, nshards, seed, ev, known, n=10):
    cases = []
    for k, c in enumerate(core.collect_cases(_case(), n + 3, seed)[3:]):
        form = S.FORM_BY_ID[c["form"]]
        body = S.render(form, c["head"], c["trail"], [c["value"]], tuple(c["enc"]), "", "")[0]
        c["context"] = None
        c["via"] = "io"
        c["pad"] = 65536 * (1 + k % 2) - len("description ") - 1 - len(c["lead"]) - core.derive("c09pad", seed, k) % (len(body) + 2)
        cases.append(c)
    return core.enum_drive(cases, check_single, ev, known, "longline")


REPLAY["longline"] = check_single


@st.composite
def _refeed_case(draw):
    forms = [f for f in _FORMS1 if "exact" not in f.text_kw and f.reject is None and "alphabet_mid" not in f.text_kw and len(f.classes) == len(S.CLASSES)]
    main_cls = draw(st.sampled_from(["type7", "md5", "numeric", "hex", "text", "sha512", "j9"]))
    items = []
    for _ in range(draw(st.integers(2, 5))):
        c = main_cls if draw(st.integers(0, 3)) else draw(st.sampled_from(["type7", "md5", "numeric", "hex", "text"]))
        f = draw(st.sampled_from(forms))
        v = draw(S.value_of(c)) if c != "j9" else draw(S.j9_value(damaged=False))
        items.append({"form": f.id, "head": draw(st.integers(0, len(f.heads) - 1)), "trail": draw(st.integers(0, len(f.trails) - 1)), "value": v, "cls": c})
    return {"items": items, "perm": draw(st.permutations(list(range(len(items))))), "salt": draw(st.sampled_from(["Tsalt", "", "s", "QzF"]))}


def t_refeed(shard, nshards, seed, ev, known, n=300):
    return core.hyp_drive(_refeed_case(), check_refeed, n, seed, ev, known, check_name="refeed")


def t_pair(shard, nshards, seed, ev, known, n=300):
    return core.hyp_drive(_pair_case(), check_pair, n, seed, ev, known, check_name="pair")


def t_single(shard, nshards, seed, ev, known, n=500):
    return core.hyp_drive(_case(), check_single, n, seed, ev, known, check_name="single")


def t_grid(shard, nshards, seed, ev, known):
    cases = []
    k = 0
    for plain in ("a", "Secret12", "x" * 40):
        for salt in ("Tsalt", "", "_"):
            items = [("type7", T7.encode(plain, s7)) for s7 in range(16)]
            items += [("md5", "$1$" + "abcdefgh"[:n] + "$" + "." * 21 + "/") for n in range(1, 9)]
            items += [("j9", J.encode(plain, sc, "Q7i"[: J.filler_len(sc)])) for sc in J.ALPHABET]
            for c, v in items:
                k += 1
                if k % nshards != shard or (c == "type7" and v.isdigit()):
                    continue
                cases.append({"form": "set-password", "head": 0, "trail": 0, "enc": ["", ""], "lead": "", "tail_ws": "", "value": v, "cls": c, "salt": salt})
    fs = core.enum_drive(cases, check_single, ev, known, "grid")
    ev.exhaustive["class_x_parameter_grid(16 type-7 salts + 8 md5 salt lengths + 65 $9$ salt chars) x 3 lengths x 3 salts"] = len(cases)
    return fs


def plan(tier):
    q = tier == "quick"
    return [
        Task("single", t_single, shards=6 if q else 16, n=1500 if q else 20000),
        Task("grid", t_grid, shards=2 if q else 4),
        Task("pair", t_pair, shards=3 if q else 16, n=800 if q else 8000),
        Task("longline", t_longline, shards=2 if q else 8, n=12 if q else 150),
        Task("refeed", t_refeed, shards=2 if q else 8, n=400 if q else 6000),
    ]
