"""C16 - files map one-to-one; inputs untouched; failures isolated; entry points agree."""

import io
import logging
import os
import shutil
import tempfile

from hypothesis import strategies as st

from .. import core
from ..core import Finding, Task, guarded
from ..gen import ip as G
from ..gen import secrets as S

ID = "C16"
RULE = (
    "Hypothesis directory trees (depth <= 3; names with spaces, non-ASCII letters, upper case; dot-files at the root and in "
    "sub-directories; dot-directories containing ordinary files; empty sub-directories; pre-existing output directory with "
    "unrelated files) whose files hold secrets, addresses, listed words and numbers; fault sets: any subset of files made "
    "undecodable by invalid UTF-8 at a generated offset (also beyond the first 8 KiB, after many secret lines) or blocked "
    "by a directory at the output path; all 16 feature subsets; single-file input too. Oracles: (1) regular files under the "
    "output root == mirror of the input files whose base name does not start with '.', failed files optional, nothing else "
    "created; (2) input bytes and mtimes unchanged; (3) netconan.netconan.main, anonymize_files, FileAnonymizer.anonymize_file "
    "per file and anonymize_io on in-memory streams (same walk order) give identical bytes; (4) every failing file is named "
    "in an ERROR record and every other file's bytes equal those of a run on the tree without the failing files. "
    "Non-trivial = tree with >= 3 files in >= 2 directories and a hidden entry, a non-ASCII/space name, or a fault that is "
    "neither first nor last in walk order; distinct by case."
)
ASSUMPTIONS = [
    "'non-hidden file' = regular file whose base name does not start with '.' (files inside dot-directories count)",
    "fault kinds: undecodable bytes, output path occupied by a directory; I/O errors such as a full disk are not injected",
    "output path is outside the input path",
]

WORDS = ["zorgon", "mgmtx"]
ASNS = ["65001", "123"]


def _opts(case):
    pwd, ip, words, asn = case["features"]
    return dict(
        anon_pwd=bool(pwd),
        anon_ip=bool(ip),
        salt=case["salt"],
        sensitive_words=list(WORDS) if words else None,
        as_numbers=list(ASNS) if asn else None,
        preserve_suffix_v4=case.get("B", 8),
        preserve_suffix_v6=case.get("B", 8),
    )


def _write_tree(root, files, emptydirs=()):
    os.makedirs(root)
    for rel, data in files:
        p = os.path.join(root, rel)
        os.makedirs(os.path.dirname(p), exist_ok=True)
        with open(p, "wb") as fh:
            fh.write(data)
    for dd in emptydirs:
        os.makedirs(os.path.join(root, dd), exist_ok=True)


def _read_tree(root):
    out = {}
    for r, dirs, fs in os.walk(root):
        for f in fs:
            p = os.path.join(r, f)
            out[os.path.relpath(p, root)] = open(p, "rb").read()
    return out


def _walk_order(root):
    order = []
    for r, dirs, fs in os.walk(root):
        for f in fs:
            if not f.startswith("."):
                order.append(os.path.relpath(os.path.join(r, f), root))
    return order


def _content(case, rel):
    for r, spec in case["files"]:
        if r == rel:
            return spec
    return None


def _bytes(spec):
    body = spec["text"].encode("utf-8")
    if spec.get("bad") is not None:
        k = min(spec["bad"], len(body))
        body = body[:k] + b"\xff\xfe\x80" + body[k:]
    return body


def check_tree(case, ev):
    from netconan.anonymize_files import FileAnonymizer, anonymize_files
    from netconan.netconan import main

    files = [(rel, _bytes(spec)) for rel, spec in case["files"]]
    bad = {rel for rel, spec in case["files"] if spec.get("bad") is not None and not os.path.basename(rel).startswith(".")}
    blocked = {rel for rel, spec in case["files"] if spec.get("blocked") and not os.path.basename(rel).startswith(".")}
    failing = bad | blocked
    visible = [rel for rel, _ in files if not os.path.basename(rel).startswith(".")]
    ok = [r for r in visible if r not in failing]
    d = tempfile.mkdtemp(prefix="vf-c16-")
    try:
        src, dst = os.path.join(d, "in put"), os.path.join(d, "out")
        _write_tree(src, files, case.get("emptydirs", []))
        if case.get("nested_out"):
            # `netconan -i . -o ./anonymized` with the (empty) output directory already there
            dst = os.path.join(src, "anonymized")
            os.makedirs(dst, exist_ok=True)
        pre = {}
        if case.get("preexisting") and not case.get("nested_out"):
            os.makedirs(dst, exist_ok=True)
            with open(os.path.join(dst, "keep.txt"), "wb") as fh:
                fh.write(b"unrelated\n")
            pre["keep.txt"] = b"unrelated\n"
        if case.get("stale") and not case.get("nested_out"):
            # an earlier run left LONGER files at some of the output paths: they are overwritten entirely
            for rel, spec in case["files"]:
                if rel not in blocked and not os.path.basename(rel).startswith(".") and len(rel) % 2 == 0:
                    os.makedirs(os.path.dirname(os.path.join(dst, rel)) or dst, exist_ok=True)
                    with open(os.path.join(dst, rel), "wb") as fh:
                        fh.write(_bytes(spec) + b"left over from an earlier run\n" * 40)
        for rel in blocked:
            os.makedirs(os.path.join(dst, rel))
        before = {rel: (data, os.stat(os.path.join(src, rel)).st_mtime_ns) for rel, data in files}
        order = _walk_order(src)
        with core.capture_logs(logging.ERROR) as errs:
            _, exc = guarded(anonymize_files, src + (os.sep if case.get("trailing_sep") else ""), dst, **_opts(case))
        if exc is not None:
            return core.exc_finding(exc, case, "anonymize_files/")
        errs = [m for lv, m in errs]
        got = {rel: data for rel, data in _read_tree(dst).items() if rel not in pre}
        top = sorted(os.listdir(d))
        # classes for the evidence
        dirs = {os.path.dirname(r) for r in visible}
        fault_mid = any(0 < order.index(r) < len(order) - 1 for r in failing if r in order)
        odd_name = any(any(ord(c) > 127 or c == " " for c in r) for r in visible)
        hidden = any(os.path.basename(r).startswith(".") or "/." in "/" + r for r, _ in files)
        nt = len(visible) >= 3 and len(dirs) >= 2 and (hidden or odd_name or fault_mid)
        ev.case(case, nt, ["features-" + "".join("pinw"[i] if f else "-" for i, f in enumerate(case["features"])), "files%d" % min(len(visible), 6)] + (["fault-undecodable"] if bad else []) + (["fault-blocked"] if blocked else []) + (["fault-not-at-either-end"] if fault_mid else []) + (["hidden-entry"] if hidden else []) + (["large-bad-file"] if any(len(dat) > 9000 for r, dat in files if r in bad) else []))
        # (1) mirror set
        if not set(top) <= {"in put", "out"}:  # (the later steps create ref-*, cli-out, file-out, cwd)
            return Finding("mirror/something-else-created", "scratch directory now holds %r" % top, case)
        extra = sorted(set(got) - set(visible))
        if extra:
            kind = "hidden-file-anonymized" if any(os.path.basename(x).startswith(".") for x in extra) else "unexpected-output-file"
            return Finding("mirror/" + kind, "output files %r have no visible input file (inputs: %r)" % (extra, sorted(r for r, _ in files)), case)
        missing = sorted(set(ok) - set(got))
        if missing:
            return Finding("mirror/output-file-missing:%s" % ("in-dot-directory" if any("/." in "/" + os.path.dirname(m) for m in missing) else "plain"), "no output for %r (inputs %r, failing %r)" % (missing, sorted(visible), sorted(failing)), case)
        if pre and _read_tree(dst).get("keep.txt") != pre["keep.txt"]:
            return Finding("mirror/unrelated-file-in-output-directory-changed", "keep.txt", case)
        # (2) inputs untouched
        for rel, (data, mt) in before.items():
            p = os.path.join(src, rel)
            if not os.path.exists(p) or open(p, "rb").read() != data or os.stat(p).st_mtime_ns != mt:
                return Finding("inputs/modified", "input file %r was modified" % rel, case)
        # (4) failures reported
        for rel in sorted(failing):
            if not any(os.path.join(src, rel) in m or rel in m for m in errs):
                return Finding("faults/failing-file-not-reported:%s" % ("undecodable" if rel in bad else "blocked"), "no ERROR record names %r (records: %r)" % (rel, errs[:3]), case)
        for m in errs:
            if not any(rel in m for rel in failing):
                return Finding("faults/error-for-a-good-file", "ERROR record %r" % m[:300], case)
        # the single-file API on a file the directory API could not process: it fails as well, or at least
        # does not produce other content ("the entry points produce identical content")
        for rel in sorted(bad):
            fs, exc = guarded(lambda: FileAnonymizer(**_opts(case)))
            if exc is not None:
                return core.exc_finding(exc, case, "ctor/")
            outp = os.path.join(d, "single-bad.out")
            _, exc = guarded(fs.anonymize_file, os.path.join(src, rel), outp)
            if exc is None:
                data = open(outp, "rb").read() if os.path.exists(outp) else b""
                if data != got.get(rel, b""):
                    return Finding("entrypoints/single-file-api-processes-a-file-the-directory-api-cannot", "file %r (undecodable): anonymize_files reported it and left %r, anonymize_file returned normally and wrote %r" % (rel, got.get(rel, b"")[:80], data[:80]), case)
            if os.path.exists(outp):
                os.remove(outp)
        # the command line reports every failing file as well (same tree, fresh output directory)
        if len(failing) >= 2 and not blocked and any(case["features"]) and not case["salt"].startswith("-"):
            pwd_, ip_, words_, asn_ = case["features"]
            argv_f = ["-i", src, "-o", os.path.join(d, "cli-fail-out"), "-s", case["salt"], "--preserve-host-bits", str(case.get("B", 8))]
            argv_f += (["-p"] if pwd_ else []) + (["-a"] if ip_ else []) + (["-w", ",".join(WORDS)] if words_ else []) + (["-n", ",".join(ASNS)] if asn_ else [])
            with core.capture_logs(logging.ERROR) as errs_cli:
                _, exc = guarded(main, argv_f)
            if exc is not None:
                return core.exc_finding(exc, case, "main/")
            shutil.rmtree(os.path.join(d, "cli-fail-out"), ignore_errors=True)
            msgs = [m for _, m in errs_cli]
            for rel in sorted(failing):
                if not any(rel in m for m in msgs):
                    return Finding("faults/failing-file-not-reported:via-command-line", "%d files fail, ERROR records via main(): %r - nothing names %r" % (len(failing), msgs[:3], rel), case)
        # reference run without the failing files
        src2, dst2 = os.path.join(d, "ref-in"), os.path.join(d, "ref-out")
        ok_files = [(rel, data) for rel, data in files if rel not in failing]
        if not [r for r, _ in ok_files if not os.path.basename(r).startswith(".")]:
            return None
        _write_tree(src2, ok_files)
        order2 = _walk_order(src2)
        if [r for r in order if r not in failing] != order2:
            ev.excluded_domain["walk-order-of-reference-tree-differs"] += 1
            return None
        _, exc = guarded(anonymize_files, src2, dst2, **_opts(case))
        if exc is not None:
            return core.exc_finding(exc, case, "anonymize_files/")
        ref = _read_tree(dst2)
        for rel in ok:
            if got[rel] != ref.get(rel):
                return Finding(
                    "faults/failing-file-changes-output-of-another-file:%s" % ("large-undecodable" if any(len(dat) > 9000 for r, dat in files if r in bad) else "undecodable" if bad else "blocked"),
                    "file %r: with failing files %r present %r, without them %r" % (rel, sorted(failing), got[rel][:200], (ref.get(rel) or b"")[:200]),
                    case,
                )
        # (3) entry points on the fault-free tree
        dst3 = os.path.join(d, "cli-out")
        argv = ["-i", src2 + (os.sep if case.get("trailing_sep") else ""), "-o", dst3, "-s", case["salt"]]
        pwd, ip, words, asn = case["features"]
        argv += ["--preserve-host-bits", str(case.get("B", 8))] if case.get("B", 8) != 8 or case.get("single") else []
        argv += (["-p"] if pwd else []) + (["-a"] if ip else []) + (["-w", ",".join(WORDS)] if words else []) + (["-n", ",".join(ASNS)] if asn else [])
        if any(case["features"]) and not case["salt"].startswith("-"):
            _, exc = guarded(main, argv)
            if exc is not None:
                return core.exc_finding(exc, case, "main/")
            cli = _read_tree(dst3)
            if cli != ref:
                rel = next(r for r in ref if cli.get(r) != ref[r])
                return Finding("entrypoints/cli-differs-from-anonymize_files", "file %r: CLI %r, anonymize_files %r" % (rel, (cli.get(rel) or b"")[:200], ref[rel][:200]), case)
        fa, exc = guarded(lambda: FileAnonymizer(**_opts(case)))
        if exc is not None:
            return core.exc_finding(exc, case, "ctor/")
        fb = FileAnonymizer(**_opts(case))
        dst4 = os.path.join(d, "file-out")
        for rel in order2:
            outp = os.path.join(dst4, rel)
            os.makedirs(os.path.dirname(outp), exist_ok=True)
            _, exc = guarded(fa.anonymize_file, os.path.join(src2, rel), outp)
            if exc is not None:
                return core.exc_finding(exc, case, "anonymize_file/")
            if open(outp, "rb").read() != ref[rel]:
                return Finding("entrypoints/anonymize_file-differs-from-anonymize_files", "file %r: %r vs %r" % (rel, open(outp, "rb").read()[:200], ref[rel][:200]), case)
            with open(os.path.join(src2, rel), "r") as fh:
                text = fh.read()
            o, exc = guarded(core.run_io, fb, text)
            if exc is not None:
                return core.exc_finding(exc, case, "anonymize_io/")
            buf = io.BytesIO()
            tw = io.TextIOWrapper(buf, write_through=True)
            tw.write(o)
            tw.flush()
            if buf.getvalue() != ref[rel]:
                return Finding("entrypoints/anonymize_io-differs-from-anonymize_files", "file %r: %r vs %r" % (rel, buf.getvalue()[:200], ref[rel][:200]), case)
        # single-file input
        if case.get("single") and order2:
            rel = order2[0]
            outp = os.path.join(d, "single.out")
            _, exc = guarded(anonymize_files, os.path.join(src2, rel), outp, **_opts(case))
            if exc is not None:
                return core.exc_finding(exc, case, "anonymize_files-single/")
            if not os.path.isfile(outp) or open(outp, "rb").read() != ref[rel]:
                return Finding("entrypoints/single-file-input-differs", "file %r" % rel, case)
            # the same with a bare output file name (relative to the working directory)
            cwd = os.getcwd()
            work = os.path.join(d, "cwd")
            os.makedirs(work)
            try:
                os.chdir(work)
                with core.capture_logs(logging.ERROR) as errs2:
                    _, exc = guarded(anonymize_files, os.path.join(src2, rel), "bare.out", **_opts(case))
            finally:
                os.chdir(cwd)
            if exc is not None:
                return core.exc_finding(exc, case, "anonymize_files-single/")
            p2 = os.path.join(work, "bare.out")
            if errs2 or not os.path.isfile(p2) or open(p2, "rb").read() != ref[rel]:
                return Finding("entrypoints/single-file-bare-output-name", "input %r, output 'bare.out' in the working directory: errors %r, written: %r" % (rel, [m for _, m in errs2][:2], os.path.isfile(p2)), case)
    finally:
        shutil.rmtree(d, ignore_errors=True)
    return None


REPLAY = {"trees": check_tree}

_NAMES = ["a.cfg", "A.cfg", "upper.cfg", "router 1.cfg", "ré.conf", "UPPER.CFG", "z-last", "b.txt", "core-sw", "edge.cfg", "m.cfg", ".hidden", ".router.swp", "x.y.z"]
_DIRS = ["", "", "sub", "Sub", "sub/Deep", "sub/deep", "site a", ".dot", "sub/.git", "ré", "sub/deep/er"]


@st.composite
def _text(draw, big=False):
    lines = []
    n = draw(st.integers(300, 600)) if big else draw(st.integers(0, 8))
    for i in range(n):
        k = draw(st.integers(0, 5)) if not big else i % 3
        if k == 0:
            lines.append("password " + draw(S.text_value(max_size=8)))
        elif k == 1:
            a = draw(G.u32)
            blk = draw(st.sampled_from([None, None, (0x0A000000, 8), (0xAC100000, 12), (0xC0A80000, 16), (0x0B000000, 8), (0xAC200000, 12), (0xC0A90000, 16)]))
            if blk is not None:  # inside / right next to the private blocks
                a = blk[0] | (a & ((1 << (32 - blk[1])) - 1))
            lines.append(" ip address %s 255.255.255.0" % G.v4_canon(a))
        elif k == 2:
            lines.append("snmp-server community %s ro" % draw(st.sampled_from(["Secret1", "commZ", "Hx9Gk2Lm"])) if not big else "username u%d secret S3cr3t%d" % (i, i))
        elif k == 3:
            lines.append("hostname zorgon-%d" % draw(st.integers(0, 9)))
        elif k == 4:
            lines.append(draw(st.sampled_from(["router bgp 65001", "ipv6 address 2001:db8:%x::%x/64" % (draw(st.integers(0, 65535)), draw(st.integers(1, 65535))), "neighbor fe80::%x remote-as 123" % draw(st.integers(1, 65535))])))
        else:
            lines.append(draw(st.sampled_from(["!", "", "interface Gi0/1", "é ü", " description x", " description à la carte  Åre", "password Åre-North-2024", "hostname zürich-zorgon РФ", "snmp-server location Straße\u00a0à 7"])))
    eol = draw(st.sampled_from(["\n", "\n", "\r\n"]))
    t = eol.join(lines) + (eol if lines and draw(st.integers(0, 4)) else "")
    return t


@st.composite
def _case(draw):
    paths = draw(st.lists(st.tuples(st.sampled_from(_DIRS), st.sampled_from(_NAMES)), min_size=1, max_size=7, unique=True))
    rels = []
    for dd, nm in paths:
        rel = (dd + "/" + nm) if dd else nm
        # a path may not be both a file and a directory
        if any(r == rel or r.startswith(rel + "/") or rel.startswith(r + "/") for r in rels):
            continue
        rels.append(rel)
    files = []
    for rel in rels:
        fault = draw(st.integers(0, 6))
        spec = {}
        if fault == 0:
            big = draw(st.booleans())
            spec["text"] = draw(_text(big=big))
            spec["bad"] = draw(st.integers(8300, 12000)) if big else draw(st.integers(0, 60))
        elif fault == 1:
            spec["text"] = draw(_text())
            spec["blocked"] = True
        else:
            spec["text"] = draw(_text())
        files.append([rel, spec])
    return {
        "files": files,
        "emptydirs": draw(st.lists(st.sampled_from(["empty", "sub/empty2", ".e"]), max_size=2, unique=True)),
        "preexisting": draw(st.booleans()),
        "features": draw(st.lists(st.booleans(), min_size=4, max_size=4).filter(any)),
        "salt": draw(st.sampled_from(["Tsalt", "s", "", "x y"])),
        "single": draw(st.booleans()),
        "nested_out": draw(st.integers(0, 5)) == 0,
        "B": draw(st.sampled_from([8, 8, 0, 12, 32])),
        "trailing_sep": draw(st.integers(0, 3)) == 0,
        "stale": draw(st.integers(0, 3)) == 0,
    }


def _smaller(case):
    """Smaller variants of a tree case: one file less, one fault less, no extras."""
    for i in range(len(case["files"])):
        yield dict(case, files=case["files"][:i] + case["files"][i + 1 :])
    for i, (rel, spec) in enumerate(case["files"]):
        if spec.get("bad") is not None or spec.get("blocked"):
            yield dict(case, files=case["files"][:i] + [[rel, {"text": spec["text"]}]] + case["files"][i + 1 :])
        if len(spec["text"]) > 200 and spec.get("bad") is None:
            yield dict(case, files=case["files"][:i] + [[rel, dict(spec, text=spec["text"][:100] + "\n")]] + case["files"][i + 1 :])
    if case.get("emptydirs"):
        yield dict(case, emptydirs=[])
    if case.get("preexisting"):
        yield dict(case, preexisting=False)
    if case.get("single"):
        yield dict(case, single=False)
    for k in range(4):
        if case["features"][k] and sum(case["features"]) > 1:
            yield dict(case, features=[f and j != k for j, f in enumerate(case["features"])])


def t_trees(shard, nshards, seed, ev, known, n=30):
    fs = core.hyp_drive(_case(), check_tree, n, seed, ev, known, check_name="trees", shrink=False, max_keys=6)
    return [core.greedy_minimize(f, check_tree, _smaller) for f in fs]


def plan(tier):
    q = tier == "quick"
    return [Task("trees", t_trees, shards=8 if q else 16, n=40 if q else 1500)]
