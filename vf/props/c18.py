"""C18 - Juniper $9$ codec round-trips for every plaintext and salt; malformed input is refused.

Oracles (DESIGN 4/C18): round trip; structural validator of the harness on the encoder's output;
differential against the harness's own decoder on every well-formed string; malformed strings
(by the validator) must raise ValueError and nothing else.
"""

import itertools

from hypothesis import strategies as st

from .. import core
from ..core import Finding, Task, guarded
from ..ref import juniper9 as J

ID = "C18"
RULE = (
    "grid: every (salt char of the 65, code point 0..255, table position 0..6) with the code point "
    "placed at that position; roundtrip: Hypothesis plaintexts over code points 0..255 (len 0..80) x "
    "salts (alphabet char / arbitrary string / None); differential: well-formed $9$ strings with "
    "arbitrary filler and arbitrary group characters; malformed: valid strings mutated (foreign "
    "character, truncation, magic damaged, trailing whitespace, short body). Non-trivial = "
    "plaintext of length >= 4 with a code point outside '0'..'9' (round trips), string of >= 2 "
    "groups (differential), malformed string that keeps the $9$ magic (malformed); distinct by "
    "(plaintext, salt) / string."
)
ASSUMPTIONS = [
    "the harness's $9$ decoder (vf/ref/juniper9.py), known-answer-tested against Crypt::Juniper vectors, defines 'decrypts to' and 'well formed'",
    "salts are str or None; plaintext code points are 0..255",
]


def _nc():
    from netconan.utils import juniper_secrets

    return juniper_secrets


# ------------------------------------------------------------------ plain check functions


def check_roundtrip(case, ev):
    plain, salt = case["plain"], case["salt"]
    js = _nc()
    nt = len(plain) >= 4 and any(not ("0" <= c <= "9") for c in plain)
    cls = ["len%d" % min(len(plain), 9)]
    if salt is None:
        cls.append("salt-none")
    elif salt == "":
        cls.append("salt-empty")
    elif salt[0] in J.POS:
        cls.append("salt-alpha-f%d" % J.filler_len(salt[0]))
    else:
        cls.append("salt-foreign")
    ev.case(case, nt, cls)
    c, exc = guarded(js.juniper_nonrandom_encrypt, plain, salt)
    if exc is not None:
        return core.exc_finding(exc, case, "encrypt/")
    why = J.structure(c) if isinstance(c, str) else "not-a-string"
    if why is not None:
        return Finding("encrypt/ill-formed:" + why, "encrypt(%r,%r) -> %r is not a well-formed $9$ string (%s)" % (plain, salt, c, why), case)
    if J.decode(c) != plain:
        return Finding("encrypt/wrong-plaintext", "encrypt(%r,%r) -> %r decodes (reference decoder) to %r" % (plain, salt, c, J.decode(c)), case)
    if salt and salt[0] in J.POS and c[3] != salt[0]:
        return Finding("encrypt/salt-char-ignored", "encrypt(%r,%r) -> %r does not start with the salt character" % (plain, salt, c), case)
    p, exc = guarded(js.juniper_decrypt, c)
    if exc is not None:
        if isinstance(exc, ValueError):
            return Finding(
                "roundtrip/own-output-refused" + ("-short-body" if len(c) - 3 < 4 else ""),
                "decrypt(encrypt(%r,%r)=%r) raises ValueError" % (plain, salt, c),
                case,
            )
        return core.exc_finding(exc, case, "decrypt/")
    if p != plain:
        return Finding("roundtrip/mismatch", "decrypt(encrypt(%r,%r)=%r) = %r" % (plain, salt, c, p), case)
    # the $9$ string just produced is a legal plaintext too (characters 36..122): once more, same salt
    c2, exc = guarded(js.juniper_nonrandom_encrypt, c, salt)
    if exc is not None:
        return core.exc_finding(exc, case, "encrypt/")
    p2, exc = guarded(js.juniper_decrypt, c2)
    if exc is not None or p2 != c or J.decode(c2) != c:
        return Finding("roundtrip/own-output-as-plaintext", "encrypt(%r,%r) = %r; encrypting that string again under the same salt gives %r, which decrypts to %r" % (plain, salt, c, c2, p2 if exc is None else exc), case)
    return None


def check_differential(case, ev):
    s = case["crypt"]
    assert J.structure(s) is None, "generator must produce well-formed strings"
    js = _nc()
    n = J.n_plain(s)
    ev.case(case, n >= 2, ["groups%d" % min(n, 9)])
    want = J.decode(s)
    got, exc = guarded(js.juniper_decrypt, s)
    if exc is not None:
        if isinstance(exc, ValueError):
            return Finding("decrypt/wellformed-refused" + ("-short-body" if len(s) - 3 < 4 else ""), "decrypt(%r) raises ValueError, reference decodes to %r" % (s, want), case)
        return core.exc_finding(exc, case, "decrypt/")
    if got != want:
        return Finding("decrypt/differs-from-reference", "decrypt(%r) = %r, reference %r" % (s, got, want), case)
    return None


def check_malformed(case, ev):
    s = case["crypt"]
    why = J.structure(s)
    assert why is not None, "generator must produce malformed strings"
    js = _nc()
    ev.case(case, s.startswith(J.MAGIC), ["why-" + why, "mut-" + case.get("mut", "?")])
    got, exc = guarded(js.juniper_decrypt, s)
    if exc is None:
        return Finding("malformed-accepted:" + why, "decrypt(%r) returned %r for a malformed string (%s)" % (s, got, why), case)
    if isinstance(exc, ValueError):
        return None
    return core.exc_finding(exc, case, "malformed/")


REPLAY = {"grid": check_roundtrip, "roundtrip": check_roundtrip, "differential": check_differential, "malformed": check_malformed}

# ------------------------------------------------------------------ generators

_plain = st.text(alphabet=st.characters(min_codepoint=0, max_codepoint=255), max_size=80)
_plain_biased = st.one_of(
    _plain,
    st.text(alphabet=st.sampled_from("\x00\x01\x7f\x80\xff09aZ $\n"), max_size=20),
    st.text(alphabet="0123456789", max_size=6),
    # "plaintexts of any length": long ones (a $9$ string takes about three characters per plaintext character)
    st.text(alphabet=st.characters(min_codepoint=32, max_codepoint=255), min_size=30, max_size=400),
)
_salt = st.one_of(
    st.sampled_from(J.ALPHABET),
    st.sampled_from(J.ALPHABET).flatmap(lambda c: st.text(max_size=5).map(lambda t: c + t)),
    st.text(max_size=6),
    st.sampled_from(["", "_", "!", " ", "é", "$", "\x00", "\U0001f600x"]),
    st.none(),
)
_case_rt = st.fixed_dictionaries({"plain": _plain_biased, "salt": _salt})

_achar = st.sampled_from(J.ALPHABET)


@st.composite
def _wellformed(draw):
    if draw(st.booleans()):
        # harness encoder with arbitrary filler
        sc = draw(_achar)
        fill = "".join(draw(st.lists(_achar, min_size=J.filler_len(sc), max_size=J.filler_len(sc))))
        return {"crypt": J.encode(draw(_plain_biased), sc, fill)}
    # arbitrary characters in a valid structure (includes repeated characters = gap -1)
    sc = draw(_achar)
    n = draw(st.integers(0, 24))
    length = J.filler_len(sc) + sum(len(J.WEIGHTS[i % 7]) for i in range(n))
    body = "".join(draw(st.lists(st.one_of(_achar, st.sampled_from("QQiT")), min_size=length, max_size=length)))
    return {"crypt": J.MAGIC + sc + body}


_FOREIGN = "_!,;: \t\n\r\x00\x0b\x0cé $%\\\"'*+=@#^&()[]{}<>|~`\x85\x1c"


@st.composite
def _malformed(draw):
    base = draw(_wellformed())["crypt"]
    mut = draw(st.sampled_from(["foreign", "truncate", "magic", "trail", "short", "lead", "empty"]))
    s = base
    if mut == "foreign":
        body = list(base[3:])
        i = draw(st.integers(0, len(body) - 1))
        body[i] = draw(st.sampled_from(_FOREIGN))
        s = J.MAGIC + "".join(body)
    elif mut == "truncate":
        k = draw(st.integers(1, min(len(base) - 3, 4)))
        s = base[:-k]
    elif mut == "magic":
        s = draw(st.sampled_from(["$9", "$8$", "9$", "$9$$", "", "$1$", " $9$", "$9 $"])) + base[3:]
    elif mut == "trail":
        s = base + draw(st.sampled_from(["\n", " ", "\r", "\r\n", "\n\n", "\t", "\x0b", "\x0c", "\x1c", "\x85", " ", ";"]))
    elif mut == "lead":
        s = draw(st.sampled_from(["\n", " ", "x"])) + base
    elif mut == "short":
        s = J.MAGIC + "".join(draw(st.lists(_achar, max_size=3)))
    elif mut == "empty":
        s = draw(st.sampled_from(["", "$", "$9$", "abcd"]))
    if J.structure(s) is None:
        # the mutation happened to give another well-formed string: make it surely malformed
        s = s + "\n"
        mut += "+nl"
    return {"crypt": s, "mut": mut}


# ------------------------------------------------------------------ tasks


def t_grid(shard, nshards, seed, ev, known, positions=range(7)):
    salts = [c for i, c in enumerate(J.ALPHABET) if i % nshards == shard]

    def cases():
        for sc in salts:
            for pos in positions:
                for cp in range(256):
                    yield {"plain": "A" * pos + chr(cp), "salt": sc}

    fs = core.enum_drive(cases(), check_roundtrip, ev, known, "grid")
    ev.exhaustive["grid_cells(salt char x code point x table position)"] = len(salts) * 256 * len(positions)
    return fs


def t_short(shard, nshards, seed, ev, known):
    """All plaintexts of length 0..2 over a boundary alphabet, all 65 salts (exhaustive)."""
    alpha = "\x00\x01/09Aaz\x7f\x80\xff"
    cases = (
        {"plain": "".join(p), "salt": sc}
        for sc in J.ALPHABET
        for n in range(3)
        for p in itertools.product(alpha, repeat=n)
    )
    fs = core.enum_drive(cases, check_roundtrip, ev, known, "roundtrip")
    ev.exhaustive["short_plaintexts(len<=2 over 11 boundary code points x 65 salts)"] = 65 * (1 + 11 + 121)
    return fs


def t_hyp(strategy, check, name):
    def fn(shard, nshards, seed, ev, known, n=1000):
        return core.hyp_drive(strategy, check, n, seed, ev, known, check_name=name)

    return fn


def plan(tier):
    q = tier == "quick"
    return [
        Task("grid", t_grid, shards=5 if q else 13),
        Task("short", t_short),
        Task("roundtrip", t_hyp(_case_rt, check_roundtrip, "roundtrip"), shards=2 if q else 16, n=2500 if q else 30000),
        Task("differential", t_hyp(_wellformed(), check_differential, "differential"), shards=1 if q else 16, n=3000 if q else 20000),
        Task("malformed", t_hyp(_malformed(), check_malformed, "malformed"), shards=2 if q else 16, n=2500 if q else 20000),
    ]
