"""C03 - the address mapping is a pure function of salt and options, not of history."""

import io
import os
import shutil
import tempfile

from hypothesis import strategies as st
from hypothesis.stateful import RuleBasedStateMachine, initialize, precondition, rule

from .. import core
from ..core import Finding, Task, guarded
from ..gen import ip as G

ID = "C03"
RULE = (
    "history: Hypothesis RuleBasedStateMachine owning one anonymizer (family and configuration drawn in an "
    "initialize rule); rules anonymize / deanonymize / anonymize a text line / undo a text line / dump (read-only) / "
    "replay-everything-permuted on a fresh instance; arguments are fresh values, earlier inputs, earlier OUTPUTS, and "
    "neighbours sharing a drawn number of leading bits with a seen value; after every request the answer must equal the "
    "answer of a fresh anonymizer (same salt/options, cold cache) asked only that question. bulk: one anonymizer is "
    "loaded with thousands of distinct addresses (interleaved undo), then a sample is re-asked and compared with fresh "
    "instances. foreign: answers of an anonymizer built before and after constructing/using anonymizers with other "
    "options must coincide. files: a generated set of files anonymized as one directory, file by file with separate "
    "anonymize_files calls, and in reverse order through one FileAnonymizer must give identical per-file output (IP, "
    "word and AS features). Non-trivial history = contains an undo request followed later by an anonymize request sharing "
    ">= 8 leading bits with it, or a repeated request; distinct by history."
)
ASSUMPTIONS = [
    "the reference is a fresh anonymizer of the same class with the same salt and options asked one question (no re-implementation of the hash scheme)",
    "secret anonymization is excluded from the file-level comparison (its numbering is history dependent by design, see C08/C12)",
]


class Runtime:
    def __init__(self, case):
        self.fam = case["fam"]
        self.cfg = case["cfg"]
        self.W = 32 if self.fam == 4 else 128
        self.an = G.mk(self.cfg, self.fam)
        self.requests = []  # (op, arg, answer)

    def fresh(self):
        return G.mk(self.cfg, self.fam)


def _do(an, op, arg):
    from netconan.ip_anonymization import anonymize_ip_addr

    if op == "a":
        return an.anonymize(arg)
    if op == "d":
        return an.deanonymize(arg)
    if op == "la":
        return anonymize_ip_addr(an, arg, False)
    if op == "lu":
        return anonymize_ip_addr(an, arg, True)
    if op == "dump":
        buf = io.StringIO()
        an.dump_to_file(buf)
        return None
    raise ValueError(op)


def step(rt, op, arg, case):
    if op == "perm":
        fresh = rt.fresh()
        reqs = [r for r in rt.requests if r[0] != "dump"]
        for i in arg:
            if i >= len(reqs):
                continue
            o, a, ans = reqs[i]
            got, exc = guarded(_do, fresh, o, a)
            if exc is not None:
                return core.exc_finding(exc, case, "replay/")
            if got != ans:
                return Finding("history/differs-when-replayed-in-other-order:v%d:%s" % (rt.fam, o), "cfg=%r: request %s(%r) answered %r in the history, %r when replayed" % (rt.cfg, o, a, ans, got), case)
        return None
    got, exc = guarded(_do, rt.an, op, arg)
    if exc is not None:
        return core.exc_finding(exc, case, "request/")
    rt.requests.append((op, arg, got))
    if op == "dump":
        return None
    want, exc = guarded(_do, rt.fresh(), op, arg)
    if exc is not None:
        return core.exc_finding(exc, case, "fresh/")
    if got != want:
        prev = sorted({o for o, _, _ in rt.requests[:-1]})
        return Finding(
            "history/answer-differs-from-fresh-instance:v%d:%s" % (rt.fam, {"a": "anonymize", "d": "deanonymize", "la": "line", "lu": "undo-line"}[op]),
            "cfg=%r: after %d earlier requests (%s) %s(%r) = %r, a fresh instance says %r" % (rt.cfg, len(rt.requests) - 1, ",".join(prev), op, arg, got, want),
            case,
        )
    return None


def _nontrivial(case):
    W = 32 if case["fam"] == 4 else 128
    seen = set()
    undone = []
    for op, arg in case["ops"]:
        if op in ("a", "d"):
            if (op, arg) in seen:
                return True
            seen.add((op, arg))
            if op == "d":
                undone.append(arg)
            elif any(G.cpl(arg, u, W) >= 8 for u in undone):
                return True
    return False


def check_history(case, ev):
    rt, exc = guarded(Runtime, case)
    if exc is not None:
        return core.exc_finding(exc, case, "ctor/")
    f = None
    for op, arg in case["ops"]:
        f = step(rt, op, arg, case)
        if f is not None:
            break
    ops = [o for o, _ in case["ops"]]
    ev.case(case, _nontrivial(case), ["v%d" % case["fam"], "len%d" % (len(ops) // 10 * 10)] + sorted(set("op-" + o for o in ops)))
    return f


def make_machine(ev):
    def factory(report):
        class History(RuleBasedStateMachine):
            def __init__(self):
                super().__init__()
                self.case = None
                self.rt = None

            @initialize(fam=st.sampled_from([4, 4, 6]), cfg=G.config())
            def init(self, fam, cfg):
                core.reset_globals()
                self.case = {"fam": fam, "cfg": cfg, "ops": []}
                rt, exc = guarded(Runtime, self.case)
                if exc is not None:
                    report(core.exc_finding(exc, dict(self.case), "ctor/"))
                self.rt = rt

            def _value(self, data):
                W = self.rt.W
                pool = [a for o, a, r in self.rt.requests if o in ("a", "d")] + [r for o, a, r in self.rt.requests if o in ("a", "d")]
                choices = [G.u32 if W == 32 else G.v6_int]
                if pool:
                    choices.append(st.sampled_from(pool))
                    base = data.draw(st.sampled_from(pool))
                    choices.append(G.neighbour(base, W, min_shared=data.draw(st.integers(0, W - 1))))
                return data.draw(st.one_of(*choices))

            def _apply(self, op, arg):
                self.case["ops"].append([op, arg])
                f = step(self.rt, op, arg, {"fam": self.case["fam"], "cfg": self.case["cfg"], "ops": list(self.case["ops"])})
                report(f)

            @precondition(lambda self: self.rt is not None)
            @rule(data=st.data())
            def anonymize(self, data):
                self._apply("a", self._value(data))

            @precondition(lambda self: self.rt is not None)
            @rule(data=st.data())
            def deanonymize(self, data):
                self._apply("d", self._value(data))

            @precondition(lambda self: self.rt is not None)
            @rule(data=st.data(), undo=st.booleans())
            def line(self, data, undo):
                vals = [self._value(data) for _ in range(data.draw(st.integers(1, 3)))]
                if self.rt.fam == 4:
                    toks = [data.draw(G.v4_spelling(v)) for v in vals]
                else:
                    toks = [data.draw(G.v6_spelling(v, allow_v4tail=False))[0] for v in vals]
                self._apply("lu" if undo else "la", " ".join(toks))

            @precondition(lambda self: self.rt is not None)
            @rule()
            def dump(self):
                self._apply("dump", None)

            @precondition(lambda self: self.rt is not None and len(self.rt.requests) >= 2)
            @rule(data=st.data())
            def replay_permuted(self, data):
                n = len([r for r in self.rt.requests if r[0] != "dump"])
                self._apply("perm", data.draw(st.permutations(list(range(n)))))

            def teardown(self):
                if self.case is not None and self.case["ops"]:
                    ops = [o for o, _ in self.case["ops"]]
                    ev.case(self.case, _nontrivial(self.case), ["v%d" % self.case["fam"], "len%d" % (len(ops) // 10 * 10)] + sorted(set("op-" + o for o in ops)))

        return History

    return factory


# ---------------------------------------------------------------- bulk: long histories


def check_bulk(case, ev):
    """case: {fam, cfg, n, stride, probe:[ints]}: load n distinct addresses, then re-ask."""
    fam, cfg, n = case["fam"], case["cfg"], case["n"]
    W = 32 if fam == 4 else 128
    an, exc = guarded(G.mk, cfg, fam)
    if exc is not None:
        return core.exc_finding(exc, case, "ctor/")
    # deterministic, well spread sequence of distinct addresses (odd multiplier modulo 2^W)
    mult = case["stride"] | 1
    first = {}
    for i in range(n):
        x = (case["start"] + i * mult) & ((1 << W) - 1)
        y, exc = guarded(an.anonymize, x)
        if exc is not None:
            return core.exc_finding(exc, case, "anonymize/")
        if i % 97 == 0:
            first[x] = y
        if i % 5 == 4:
            _, exc = guarded(an.deanonymize, (x * 31 + 7) & ((1 << W) - 1))
            if exc is not None:
                return core.exc_finding(exc, case, "deanonymize/")
    ev.bulk(1, 1, sample={k: v for k, v in case.items() if k != "probe"})
    ev.classes["v%d" % fam] += 1
    ev.notes["addresses_loaded"] = ev.notes.get("addresses_loaded", 0) + n
    fresh = G.mk(cfg, fam)
    for x in list(first)[:60] + list(case["probe"]):
        again, exc = guarded(an.anonymize, x)
        if exc is not None:
            return core.exc_finding(exc, case, "anonymize/")
        ref = fresh.anonymize(x)
        if x in first and first[x] != again:
            return Finding("bulk/answer-changed-during-long-history:v%d" % fam, "cfg=%r: %d first mapped to %d, after %d further addresses to %d" % (cfg, x, first[x], n, again), case)
        if again != ref:
            return Finding("bulk/answer-differs-from-fresh-instance:v%d" % fam, "cfg=%r: after %d addresses anonymize(%d)=%d, fresh instance %d" % (cfg, n, x, again, ref), case)
        back, exc = guarded(an.deanonymize, again)
        if exc is not None:
            return core.exc_finding(exc, case, "deanonymize/")
        if back != x:
            return Finding("bulk/undo-wrong-after-long-history:v%d" % fam, "cfg=%r: deanonymize(anonymize(%d)) = %d after %d addresses" % (cfg, x, back, n), case)
    return None


# ---------------------------------------------------------------- foreign constructions


def check_foreign(case, ev):
    """case: {cfg, others:[cfg], xs:[v4 ints], x6:[ints]}"""
    cfg = case["cfg"]
    a1, exc = guarded(G.mk4, cfg)
    if exc is not None:
        return core.exc_finding(exc, case, "ctor/")
    b1 = G.mk6(cfg)
    before4 = []
    for x in case["xs"]:
        y, exc = guarded(a1.anonymize, x)
        if exc is not None:
            return core.exc_finding(exc, case, "anonymize/")
        before4.append(y)
    before6 = [b1.anonymize(x) for x in case["x6"]]
    for oc in case["others"]:
        o, exc = guarded(G.mk4, oc)
        if exc is not None:
            return core.exc_finding(exc, case, "ctor/")
        o6 = G.mk6(oc)
        for x in case["xs"][:3]:
            guarded(o.anonymize, x)
        for x in case["x6"][:2]:
            guarded(o6.anonymize, x)
    a2, exc = guarded(G.mk4, cfg)
    if exc is not None:
        return core.exc_finding(exc, case, "ctor/")
    b2 = G.mk6(cfg)
    near = any(G.cpl(x, G.parse_cidr(c)[0], 32) >= G.parse_cidr(c)[1] - 2 for oc in case["others"] for c in (oc.get("networks") or []) + (oc["prefixes"] or []) for x in case["xs"])
    ev.case(case, near, ["others%d" % len(case["others"]), "mode-" + cfg.get("mode", "?")] + (["near-foreign-network"] if near else []))
    for x, y in zip(case["xs"], before4):
        y2, exc = guarded(a2.anonymize, x)
        if exc is not None:
            return core.exc_finding(exc, case, "anonymize/")
        if y2 != y:
            return Finding("foreign/v4-mapping-depends-on-anonymizers-constructed-earlier", "cfg=%r: %s -> %s before, %s after constructing %r" % (cfg, G.v4_canon(x), G.v4_canon(y), G.v4_canon(y2), case["others"]), case)
    for x, y in zip(case["x6"], before6):
        if b2.anonymize(x) != y:
            return Finding("foreign/v6-mapping-depends-on-anonymizers-constructed-earlier", "cfg=%r: %d" % (cfg, x), case)
    return None


# ---------------------------------------------------------------- files together / separately / any order


def check_files(case, ev):
    """case: {cfg, words, asns, files: [[name, text]]}"""
    from netconan.anonymize_files import FileAnonymizer, anonymize_files

    cfg, files = case["cfg"], case["files"]
    if any("{MASKIMG:" in t for _, t in files):
        # "{MASKIMG:n}" stands for the address whose image is the mask-shaped value n
        import re as _re

        u4 = G.mk4(cfg)
        files = [[nm, _re.sub(r"\{MASKIMG:(\d+)\}", lambda m: G.v4_canon(u4.deanonymize(int(m.group(1)))), t)] for nm, t in files]
    kw = dict(
        anon_pwd=bool(case.get("pwd")),
        anon_ip=True,
        salt=cfg["salt"],
        sensitive_words=list(case["words"]) if case["words"] else None,
        as_numbers=list(case["asns"]) if case["asns"] else None,
        preserve_prefixes=None if cfg["prefixes"] is None else list(cfg["prefixes"]),
        preserve_networks=None if cfg.get("networks") is None else list(cfg["networks"]),
        preserve_suffix_v4=cfg["B4"],
        preserve_suffix_v6=cfg["B6"],
    )

    def kwargs():
        return {k: (list(v) if isinstance(v, list) else v) for k, v in kw.items()}

    d = tempfile.mkdtemp(prefix="vf-c03-")
    try:
        os.makedirs(os.path.join(d, "in"))
        for name, text in files:
            with open(os.path.join(d, "in", name), "w", encoding="utf-8", newline="") as fh:
                fh.write(text)
        kw_t = kwargs()
        if case.get("dump"):
            kw_t["dumpfile"] = os.path.join(d, "map.txt")  # asking for the map must not change any output
        _, exc = guarded(anonymize_files, os.path.join(d, "in"), os.path.join(d, "together"), **kw_t)
        if exc is not None:
            return core.exc_finding(exc, case, "anonymize_files/")
        outs = {"together": {}, "separately": {}, "reverse-shared": {}}
        for name, _ in files:
            p = os.path.join(d, "together", name)
            outs["together"][name] = open(p, encoding="utf-8", newline="").read() if os.path.exists(p) else None
        for name, _ in files:
            _, exc = guarded(anonymize_files, os.path.join(d, "in", name), os.path.join(d, "sep-" + name), **kwargs())
            if exc is not None:
                return core.exc_finding(exc, case, "anonymize_files/")
            outs["separately"][name] = open(os.path.join(d, "sep-" + name), encoding="utf-8", newline="").read()
        fa, exc = guarded(lambda: FileAnonymizer(**kwargs()))
        if exc is not None:
            return core.exc_finding(exc, case, "ctor/")
        for name, text in reversed(files):
            o, exc = guarded(core.run_io, fa, text)
            if exc is not None:
                return core.exc_finding(exc, case, "anonymize_io/")
            outs["reverse-shared"][name] = o
    finally:
        shutil.rmtree(d, ignore_errors=True)
    naddr = sum(t.count(".") // 3 + t.count("::") for _, t in files)
    shared = len(files) >= 2
    ev.case(case, shared and naddr >= 3, ["files%d" % len(files)] + (["words"] if case["words"] else []) + (["asns"] if case["asns"] else []))
    for name, _ in files:
        ref = outs["together"][name]
        for how in ("separately", "reverse-shared"):
            if outs[how][name] != ref:
                return Finding("files/output-differs:%s-vs-together" % how, "cfg=%r file %s: together %r, %s %r" % (cfg, name, ref, how, outs[how][name]), case)
    return None


def check_nosalt_run(case, ev):
    """One directory run WITHOUT a salt (netconan draws one): the same address must get the same image
    in every file of the run, also when a file in between cannot be processed.  case: {addrs, nfiles, bad}"""
    import ipaddress

    from netconan.anonymize_files import anonymize_files

    d = tempfile.mkdtemp(prefix="vf-c03n-")
    try:
        os.makedirs(os.path.join(d, "in"))
        names = []
        for i in range(case["nfiles"]):
            if i in case["bad"]:
                with open(os.path.join(d, "in", "f%02d_bad.cfg" % i), "wb") as fh:
                    fh.write(b"ip address 9.9.9.9\n\xff\xfe\n")
                continue
            names.append("f%02d.cfg" % i)
            with open(os.path.join(d, "in", names[-1]), "w") as fh:
                fh.write("".join(" ip address %s 255.255.255.0\n" % G.v4_canon(a) for a in case["addrs"]))
        _, exc = guarded(anonymize_files, os.path.join(d, "in"), os.path.join(d, "out"), False, True, preserve_suffix_v4=8, preserve_suffix_v6=8)
        if exc is not None:
            return core.exc_finding(exc, case, "anonymize_files/")
        outs = {}
        for nm in names:
            p_ = os.path.join(d, "out", nm)
            outs[nm] = open(p_).read() if os.path.exists(p_) else None
    finally:
        shutil.rmtree(d, ignore_errors=True)
    ev.case(case, bool(case["bad"]) and len(names) >= 2, ["nosalt-run", "failing-file-between" if case["bad"] else "no-failure"])
    ref = None
    for nm in names:
        if outs[nm] is None:
            return Finding("nosalt/output-missing", nm, case)
        if ref is None:
            ref = (nm, outs[nm])
        elif outs[nm] != ref[1]:
            return Finding("nosalt/same-address-different-image-within-one-run", "files %s and %s hold the same addresses but were anonymized differently in one run (failing files: %r)" % (ref[0], nm, case["bad"]), case)
    return None


REPLAY = {"nosalt_run": check_nosalt_run, "history": check_history, "bulk": check_bulk, "bulk_long": check_bulk, "foreign": check_foreign, "files": check_files}


@st.composite
def _bulk_case(draw, n):
    fam = draw(st.sampled_from([4, 4, 6]))
    W = 32 if fam == 4 else 128
    cfg = draw(G.config())
    if n >= 20000:
        fam, W = 4, 32  # long runs: IPv4 with no preserved host bits fills the memo fastest
    if fam == 4:
        cfg["B4"] = 0 if n >= 20000 else draw(st.sampled_from([0, 0, 8, 4]))
    else:
        cfg["B6"] = draw(st.sampled_from([0, 8, 32]))
    probe = [draw(G.u32 if fam == 4 else G.v6_int) for _ in range(5)]
    if fam == 4 and G.effective_prefixes(cfg):
        probe += [draw(G.addr_near(G.effective_prefixes(cfg))) for _ in range(6)]
    return {"fam": fam, "cfg": cfg, "n": n if fam == 4 else max(300, n // 6), "start": draw(st.integers(0, (1 << W) - 1)), "stride": draw(st.integers(1 << (W - 14), (1 << W) - 1)), "probe": probe}


@st.composite
def _foreign_case(draw):
    cfg = draw(G.config(modes=("default", "default", "list", "empty")))
    others = [draw(G.config(networks="always" if draw(st.booleans()) else "maybe")) for _ in range(draw(st.integers(1, 3)))]
    pool = [c for oc in others for c in (oc.get("networks") or []) + (oc["prefixes"] or [])] + G.effective_prefixes(cfg)
    xs = [draw(G.addr_near(pool)) if pool and draw(st.integers(0, 3)) else draw(G.u32) for _ in range(draw(st.integers(2, 8)))]
    return {"cfg": cfg, "others": others, "xs": xs, "x6": [draw(G.v6_int) for _ in range(2)]}


_WORDS = ["zorgon", "Kwyjibo", "intranet-x", "mgmtvrf"]


@st.composite
def _files_case(draw):
    cfg = draw(G.config())
    words = draw(st.lists(st.sampled_from(_WORDS), max_size=2, unique=True))
    asns = draw(st.lists(st.sampled_from(["65001", "64512", "1234", "4200000001"]), max_size=2, unique=True))
    pool4 = [draw(G.u32) for _ in range(4)]
    pool6 = [draw(G.v6_int) for _ in range(2)]
    files = []
    for i in range(draw(st.integers(2, 4))):
        lines = []
        for _ in range(draw(st.integers(1, 5))):
            kind = draw(st.integers(0, 6))
            if kind == 6:
                from ..gen import secrets as S_

                lines.append(draw(st.sampled_from([l for l in S_.CORPUS if any(ch.isdigit() for ch in l)])))
            elif kind == 5:
                m = draw(st.sampled_from([0xFFFFFF00, 0xFFFF0000, 0x000000FF, 0xFFFFFFFC, 0xFF000000, 0x0000FFFF]))
                lines.append(draw(st.sampled_from([" ip address {MASKIMG:%d} %s" % (m, G.v4_canon(m)), "permit ip %s {MASKIMG:%d}" % (G.v4_canon(m), m), "route {MASKIMG:%d}" % m])))
            elif kind == 0:
                n = draw(st.sampled_from(pool4))
                lines.append(" ip address %s 255.255.255.0" % draw(G.v4_spelling(n)))
            elif kind == 1:
                n = draw(st.sampled_from(pool6))
                lines.append("ipv6 address %s" % draw(G.v6_spelling(n, allow_v4tail=False))[0])
            elif kind == 2:
                lines.append("neighbor %s remote-as %s" % (G.v4_canon(draw(st.one_of(st.sampled_from(pool4), G.u32))), draw(st.sampled_from(asns + ["65001", "7"]))))
            elif kind == 3:
                lines.append("hostname %s-%d" % (draw(st.sampled_from(words + ["core"])), draw(st.integers(0, 9))))
            else:
                lines.append(draw(G.token_line(cfg=cfg))["line"])
        files.append(["f%d.cfg" % i, "\n".join(lines) + "\n"])
    return {"cfg": cfg, "words": words, "asns": asns, "files": files, "dump": draw(st.booleans()), "pwd": draw(st.integers(0, 2)) == 0}


def t_history(shard, nshards, seed, ev, known, n=100, steps=40):
    return core.machine_drive(make_machine(ev), n, steps, seed, ev, known, check_name="history")


def t_bulk(shard, nshards, seed, ev, known, n=3, size=6000):
    # the first examples Hypothesis generates are the simplest ones (empty lists, zero values): skip them
    cases = core.collect_cases(_bulk_case(size), n + 3, seed)[3:]
    return core.enum_drive(cases, check_bulk, ev, known, "bulk")


def t_foreign(shard, nshards, seed, ev, known, n=300):
    return core.hyp_drive(_foreign_case(), check_foreign, n, seed, ev, known, check_name="foreign")


def t_files(shard, nshards, seed, ev, known, n=50):
    return core.hyp_drive(_files_case(), check_files, n, seed, ev, known, check_name="files")


def t_nosalt_run(shard, nshards, seed, ev, known, n=25):
    strat = st.fixed_dictionaries({"addrs": st.lists(G.u32.filter(lambda x: not G.is_mask(x)), min_size=2, max_size=6), "nfiles": st.integers(2, 5), "bad": st.lists(st.integers(0, 4), max_size=2, unique=True)})
    return core.hyp_drive(strat, check_nosalt_run, n, seed, ev, known, check_name="nosalt_run", shrink=False)


def check_corpus(case, ev):
    """Ordinary configuration lines that hold addresses but no secret, in a run with the password stage
    on and earlier secret lines: every address gets the image a fresh anonymizer (same salt and options,
    nothing else seen) gives it.  case: {cfg, prelude: [lines], lines: [corpus lines]}"""
    from netconan.ip_anonymization import anonymize_ip_addr

    cfg = case["cfg"]
    fa, exc = guarded(G.file_anonymizer, cfg, False, anon_pwd=True)
    if exc is not None:
        return core.exc_finding(exc, case, "ctor/")
    text = "".join(l + "\n" for l in case["prelude"] + case["lines"])
    out, exc = guarded(core.run_io, fa, text)
    if exc is not None:
        return core.exc_finding(exc, case, "run/")
    outs = out.split("\n")[len(case["prelude"]) : -1]
    if len(outs) != len(case["lines"]):
        return Finding("corpus/line-count-changed", "%d -> %d" % (len(case["lines"]), len(outs)), case)
    for l, o in zip(case["lines"], outs):
        f4, f6 = G.mk4(cfg), G.mk6(cfg)
        want, exc = guarded(lambda: anonymize_ip_addr(f4, anonymize_ip_addr(f6, l + "\n")))
        if exc is not None:
            return core.exc_finding(exc, case, "reference/")
        ev.case({"cfg": cfg, "line": l}, want != l + "\n", ["corpus-line-with-address", "after-%d-secret-lines" % len(case["prelude"])])
        if o + "\n" != want:
            return Finding("corpus/address-image-differs-from-fresh-anonymizer", "cfg=%r line %r: in a run with -p and %d earlier secret lines -> %r, fresh address anonymizers alone -> %r" % (cfg, l, len(case["prelude"]), o, want.rstrip("\n")), case)
    return None


REPLAY["corpus"] = check_corpus


def check_toggle(case, ev):
    """One long-lived FileAnonymizer driven in both directions by setting its public `undo_ip_anon`
    attribute between calls, and fed several inputs one after another (one of them cut off inside an
    embedded certificate): every answer equals that of a fresh object of that direction asked only that
    question.  case: {cfg, texts: [str], dirs: [bool]}"""
    cfg = case["cfg"]
    fa, exc = guarded(G.file_anonymizer, cfg)
    if exc is not None:
        return core.exc_finding(exc, case, "ctor/")
    for k, (text, undo) in enumerate(zip(case["texts"], case["dirs"])):
        fa.undo_ip_anon = bool(undo)
        got, exc = guarded(core.run_io, fa, text)
        if exc is not None:
            return core.exc_finding(exc, case, "run/")
        fresh, exc = guarded(G.file_anonymizer, cfg, bool(undo))
        if exc is not None:
            return core.exc_finding(exc, case, "ctor/")
        want, exc = guarded(core.run_io, fresh, text)
        if exc is not None:
            return core.exc_finding(exc, case, "reference/")
        if got != want:
            return Finding("toggle/answer-of-a-long-lived-file-anonymizer-differs-from-fresh:%s" % ("undo" if undo else "anonymize"), "cfg=%r: request %d (%s) %r -> %r, a fresh object gives %r (earlier requests: %r)" % (cfg, k, "undo" if undo else "anonymize", text, got, want, list(zip(case["texts"][:k], case["dirs"][:k]))), case)
    ev.case(case, len(set(case["dirs"])) == 2, ["long-lived-file-anonymizer", "requests%d" % len(case["texts"])] + (["both-directions"] if len(set(case["dirs"])) == 2 else []))
    return None


REPLAY["toggle"] = check_toggle


@st.composite
def _toggle_case(draw):
    cfg = draw(G.config())
    texts = []
    for _ in range(draw(st.integers(2, 5))):
        ls = [draw(G.token_line(cfg=cfg))["line"] for _ in range(draw(st.integers(1, 3)))]
        if draw(st.integers(0, 4)) == 0:
            # an input that ends inside an embedded certificate block
            ls = ls + ["-----BEGIN CERTIFICATE-----", "MIIBszCCAVmgAwIBAgIUQ0dV"]
        texts.append("".join(l.replace("\r", " ") + "\n" for l in ls))
    return {"cfg": cfg, "texts": texts, "dirs": [draw(st.booleans()) for _ in texts]}


def t_toggle(shard, nshards, seed, ev, known, n=150):
    return core.hyp_drive(_toggle_case(), check_toggle, n, seed, ev, known, check_name="toggle")


def t_corpus(shard, nshards, seed, ev, known, n=4):
    import re

    from ..gen import secrets as S_

    lines = [l for l in S_.CORPUS if re.search(r"\d+\.\d+\.\d+\.\d+|[0-9a-fA-F]*:[0-9a-fA-F:]*:", l)]
    cfgs = core.collect_cases(G.config(), n * nshards + 3, seed)[3:]
    cases = []
    for k, cfg in enumerate(cfgs):
        if k % nshards != shard:
            continue
        prelude = ["username u%d password Secret%dx" % (j, j) for j in range(core.derive("c03c", seed, k) % 4)]
        cases.append({"cfg": cfg, "prelude": prelude, "lines": lines})
    return core.enum_drive(cases, check_corpus, ev, known, "corpus")


def plan(tier):
    q = tier == "quick"
    return [
        Task("history", t_history, shards=4 if q else 16, n=150 if q else 1500, steps=40 if q else 60),
        Task("bulk", t_bulk, shards=4 if q else 16, n=2 if q else 12, size=6000 if q else 12000),
        Task("bulk_long", t_bulk, shards=2 if q else 8, n=1 if q else 4, size=24000 if q else 60000),
        Task("foreign", t_foreign, shards=2 if q else 16, n=400 if q else 10000),
        Task("files", t_files, shards=2 if q else 16, n=60 if q else 1500),
        Task("nosalt_run", t_nosalt_run, shards=1 if q else 4, n=30 if q else 600),
        Task("corpus", t_corpus, shards=2 if q else 8, n=3 if q else 25),
        Task("toggle", t_toggle, shards=2 if q else 8, n=200 if q else 5000),
    ]
