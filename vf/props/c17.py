"""C17 - the dumped IP map is exactly the mapping that was applied."""

import ipaddress
import os
import shutil
import tempfile

from hypothesis import strategies as st

from .. import core
from ..core import Finding, Task, guarded
from ..gen import ip as G
from ..ref import tokens as T

ID = "C17"
RULE = (
    "Hypothesis directory inputs of 1-4 files whose lines are standalone address tokens of both families in "
    "generated spellings (shared pool with duplicates across files, last-bit and near neighbours, masks, preserved "
    "addresses) under generated configurations (host bits 0/1/8/31/32/random, prefix and network lists, any salt), "
    "optionally with undecodable files in between, run through anonymize_files(dumpfile=...) or netconan.netconan.main -d. Oracle: the dump parses as "
    "orig<TAB>anon lines; every address token whose text changed in an output file (paired with its output token by "
    "position with the harness's scanner) is listed with exactly that replacement; no left and no right value occurs "
    "twice; every listed pair agrees with a fresh anonymizer. A dump file left over from another run may pre-exist (must be "
    "overwritten); long: one run over two files with thousands of distinct addresses of both families. Non-trivial = input with >= 2 distinct replaced addresses "
    "of each family; distinct by case."
)
ASSUMPTIONS = ["an address counts as 'replaced' when its token text differs between input and output file", "the dump may list further pairs (e.g. preserved /32 entries) as long as they agree with the mapping function"]


def check_dump(case, ev):
    from netconan.anonymize_files import anonymize_files

    cfg, files, via = case["cfg"], case["files"], case["via"]
    d = tempfile.mkdtemp(prefix="vf-c17-")
    try:
        os.makedirs(os.path.join(d, "in"))
        texts = {}
        files = [[name, [_resolve(cfg, l) for l in lines]] for name, lines in files]
        for name, lines in files:
            texts[name] = "".join("".join(s["s"] for s in l) + "\n" for l in lines)
            with open(os.path.join(d, "in", name), "w", encoding="utf-8", newline="") as fh:
                fh.write(texts[name])
        for k in case.get("bad", []):
            # files that cannot be processed, sorted between the good ones; they must not disturb the map
            with open(os.path.join(d, "in", "f%d-bad.cfg" % k), "wb") as fh:
                fh.write(b"ip address 9.8.7.6\n\xff\xfe\x80 broken\n")
        dump = os.path.join(d, "map.txt")
        if case.get("stale_dump"):
            # a map left over from an earlier run with another salt must simply be overwritten
            with open(dump, "w") as fh:
                fh.write("9.9.9.9\t1.1.1.1\n2001:db8::9\t2001:db8::1\n")
        import logging

        root_ = logging.getLogger()
        level_ = root_.level
        if case.get("debug"):
            root_.setLevel(logging.DEBUG)  # what `--log-level DEBUG` does: the dump lists the same pairs
        if via == "api":
            _, exc = guarded(
                anonymize_files,
                os.path.join(d, "in"),
                os.path.join(d, "out"),
                False,
                True,
                salt=cfg["salt"],
                dumpfile=dump,
                preserve_prefixes=None if cfg["prefixes"] is None else list(cfg["prefixes"]),
                preserve_networks=None if cfg.get("networks") is None else list(cfg["networks"]),
                preserve_suffix_v4=cfg["B4"],
                preserve_suffix_v6=cfg["B6"],
            )
        else:
            from netconan.netconan import main

            argv = ["-a", "-i", os.path.join(d, "in"), "-o", os.path.join(d, "out"), "-d", dump, "-s", cfg["salt"], "--preserve-host-bits", str(cfg["B4"])]
            if cfg["prefixes"] is not None:
                argv += ["--preserve-prefixes", ",".join(cfg["prefixes"])]
            if cfg.get("networks"):
                argv += ["--preserve-addresses", ",".join(cfg["networks"])]
            _, exc = guarded(main, argv)
        root_.setLevel(level_)
        if exc is not None:
            return core.exc_finding(exc, case, "run/")
        if not os.path.exists(dump):
            return Finding("dump/missing", "no dump file written for cfg=%r" % (cfg,), case)
        raw = open(dump, encoding="utf-8").read()
        if case.get("_raw_only"):
            return raw
        outs = {}
        for name, _ in files:
            p = os.path.join(d, "out", name)
            if not os.path.exists(p):
                return Finding("dump/output-file-missing", "no output for %s" % name, case)
            outs[name] = open(p, encoding="utf-8", newline="").read()
    finally:
        shutil.rmtree(d, ignore_errors=True)

    # parse the dump
    left, right = {}, {}
    pairs = []
    for ln in raw.split("\n"):
        if ln == "":
            continue
        parts = ln.split("\t")
        ok = len(parts) == 2
        if ok:
            try:
                o, a = ipaddress.ip_address(parts[0]), ipaddress.ip_address(parts[1])
                ok = o.version == a.version
            except ValueError:
                ok = False
        if not ok:
            return Finding("dump/unparsable-line", "dump line %r" % ln, case)
        if parts[0] in left:
            return Finding("dump/original-listed-twice:v%d" % o.version, "%r listed twice (%r and %r)" % (parts[0], left[parts[0]], parts[1]), case)
        if parts[1] in right:
            return Finding("dump/replacement-listed-twice:v%d" % o.version, "%r is the replacement of %r and %r" % (parts[1], right[parts[1]], parts[0]), case)
        left[parts[0]] = parts[1]
        right[parts[1]] = parts[0]
        pairs.append((o, a))

    # every replaced token is listed with the replacement used
    replaced = {4: set(), 6: set()}
    for name, _ in files:
        il, ol = texts[name].split("\n"), outs[name].split("\n")
        if len(il) != len(ol):
            return Finding("dump/line-count-differs", "file %s: %d lines in, %d out" % (name, len(il), len(ol)), case)
        for a, b in zip(il, ol):
            ta, tb = list(T.scan(a)), list(T.scan(b))
            if len(ta) != len(tb):
                return Finding("dump/token-structure-changed", "line %r -> %r" % (a, b), case)
            for (i, j, kind, val), (i2, j2, _, _) in zip(ta, tb):
                if kind not in ("v4", "v6", "v6tail"):
                    continue
                tin, tout = a[i:j], b[i2:j2]
                if tin == tout:
                    continue
                fam = 4 if kind == "v4" else 6
                canon = str(ipaddress.IPv4Address(val)) if fam == 4 else str(ipaddress.IPv6Address(val))
                replaced[fam].add(canon)
                if canon not in left:
                    return Finding(
                        "dump/replaced-address-not-listed:v%d:B%s" % (fam, "0" if (cfg["B4"] if fam == 4 else cfg["B6"]) == 0 else ">0"),
                        "cfg=%r: %s was replaced by %s in %s but the dump has no line for it" % (cfg, canon, tout, name),
                        case,
                    )
                if left[canon] != tout:
                    return Finding("dump/listed-replacement-differs-from-file:v%d" % fam, "cfg=%r: %s replaced by %s in %s, dump says %s" % (cfg, canon, tout, name, left[canon]), case)

    f4, f6 = G.mk4(cfg), G.mk6(cfg)
    for o, a in pairs:
        want = (f4 if o.version == 4 else f6).anonymize(int(o))
        if want != int(a):
            return Finding("dump/pair-disagrees-with-mapping-function:v%d" % o.version, "cfg=%r: dump has %s -> %s, a fresh anonymizer maps it to %s" % (cfg, o, a, type(o)(want)), case)
    if case.get("debug"):
        # the same run without debug logging: the map must be the same, line for line
        raw2 = check_dump(dict(case, debug=False, _raw_only=True), core.Ev())
        if isinstance(raw2, str) and raw2 != raw:
            extra = sorted(set(raw.split("\n")) ^ set(raw2.split("\n")))
            return Finding("dump/map-depends-on-the-log-level", "cfg=%r: with the root logger at DEBUG the dump differs from the dump of the same run at the default level in lines %r" % (cfg, extra[:4]), case)
    B = cfg["B4"]
    ev.case(case, len(replaced[4]) >= 2 and len(replaced[6]) >= 2, ["via-" + via, "B4-%s" % (B if B in (0, 1, 8, 31, 32) else "other"), "files%d" % len(files), "pairs%d" % min(len(pairs) // 5 * 5, 20)] + (["undecodable-file-in-between"] if case.get("bad") else []) + (["debug-logging"] if case.get("debug") else []))
    return None


def _resolve(cfg, segs):
    """{"t":"v4img","mask":m} -> the address whose image is that mask-shaped value."""
    out = []
    for sg in segs:
        if sg["t"] == "v4img":
            n = G.mk4(cfg).deanonymize(sg["mask"])
            out.append({"t": "v4", "s": G.v4_canon(n), "n": n, "kind": "mask-image"})
        else:
            out.append(sg)
    return out


def check_long(case, ev):
    """One run with thousands of distinct addresses: the dump must still list every replaced one."""
    k = case["k"]
    lines = []
    for i in range(case["n4"]):
        x = (case["start"] + i * (case["stride"] | 1)) & G.M32
        lines.append([{"t": "sep", "s": " ip address "}, {"t": "v4", "s": G.v4_canon(x), "n": x}, {"t": "sep", "s": " 255.255.255.0"}])
    for i in range(case["n6"]):
        y = ((i + 1) * ((case["stride"] << 96) | (case["start"] << 48) | 0x9E3779B97F4A7C15)) & G.M128
        lines.append([{"t": "sep", "s": "ipv6 address "}, {"t": "v6", "s": str(ipaddress.IPv6Address(y)), "n": y}, {"t": "sep", "s": "/64"}])
    cfg = {"salt": "s%d" % k, "B4": case["B"], "B6": case["B"], "prefixes": None, "networks": None, "mode": "default"}
    return check_dump({"cfg": cfg, "files": [["big.cfg", lines[: len(lines) // 2]], ["big2.cfg", lines[len(lines) // 2 :]]], "via": "api"}, ev)


REPLAY = {"dump": check_dump, "long": check_long}


@st.composite
def _case(draw):
    cfg = draw(G.config(modes=("default", "list", "nested")))
    via = draw(st.sampled_from(["api", "api", "cli"]))
    B = draw(st.one_of(st.sampled_from([0, 0, 1, 8, 31, 32]), st.integers(0, 32)))
    cfg["B4"] = B
    cfg["B6"] = B if via == "cli" else draw(st.one_of(st.just(B), st.sampled_from([0, 8, 32])))
    if via == "cli":
        cfg["salt"] = draw(st.one_of(st.text(alphabet="abcXYZ019_ é", max_size=8), st.sampled_from(["", "s"])))
    pool = []
    for _ in range(draw(st.integers(2, 5))):
        x = draw(G.u32)
        pool += [(4, x), (4, x ^ 1)] if draw(st.booleans()) else [(4, x)]
        if draw(st.booleans()):
            pool.append((4, draw(G.neighbour(x, 32, min_shared=20))))
    for _ in range(draw(st.integers(1, 3))):
        x = draw(G.v6_int)
        pool += [(6, x), (6, x ^ 1)] if draw(st.booleans()) else [(6, x)]
        if draw(st.booleans()):
            pool.append((6, draw(G.neighbour(x, 128, min_shared=100))))
    from .c05 import MASKS

    files = []
    for i in range(draw(st.integers(1, 4))):
        lines = [draw(G.token_line(cfg=cfg, allow_v4tail=True, pool=pool, special4=st.sampled_from(MASKS)))["segs"] for _ in range(draw(st.integers(1, 4)))]
        if draw(st.integers(0, 4)) == 0:
            # a mask together with the one address whose image is that mask-shaped value
            m = draw(st.sampled_from(MASKS))
            lines.append([{"t": "sep", "s": "ip route "}, {"t": "v4img", "mask": m}, {"t": "sep", "s": " "}, {"t": "v4", "s": G.v4_canon(m), "n": m, "kind": "canon"}, {"t": "sep", "s": ""}])
        files.append(["f%d.cfg" % i, lines])
    bad = draw(st.lists(st.integers(0, 3), max_size=2, unique=True)) if draw(st.integers(0, 3)) == 0 else []
    return {"cfg": cfg, "files": files, "via": via, "bad": bad, "stale_dump": draw(st.integers(0, 3)) == 0, "debug": draw(st.integers(0, 3)) == 0}


def t_dump(shard, nshards, seed, ev, known, n=100):
    return core.hyp_drive(_case(), check_dump, n, seed, ev, known, check_name="dump")


def t_long(shard, nshards, seed, ev, known, n4=4000, n6=1300):
    cases = [{"k": k, "n4": n4, "n6": n6, "start": core.derive("c17", seed, k) & G.M32, "stride": (core.derive("c17s", seed, k) & 0xFFFFFF) | 0x10001, "B": [8, 0, 4, 16][k % 4]} for k in range(nshards) if k % nshards == shard]
    return core.enum_drive(cases, check_long, ev, known, "long")


def plan(tier):
    q = tier == "quick"
    return [
        Task("dump", t_dump, shards=6 if q else 16, n=200 if q else 3000),
        Task("long", t_long, shards=2 if q else 8, n4=4000 if q else 30000, n6=1300 if q else 6000),
    ]
