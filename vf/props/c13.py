"""C13 - same salt, options and input give byte-identical output, always."""

import logging
import os
import re
import shutil
import tempfile

from hypothesis import strategies as st

from .. import core
from ..core import Finding, Task, guarded
from ..gen import ip as G
from ..gen import secrets as S

ID = "C13"
RULE = (
    "seeds: Hypothesis batch of (options: salt, feature subset, overlapping sensitive-word lists, user reserved words, AS "
    "numbers, prefix/network lists, host bits; 1-3 input files with secrets of every format class, listed words, numbers and "
    "addresses) run through anonymize_files in fresh interpreter processes with PYTHONHASHSEED 0,1,2,3 (quick) / 0..7 and "
    "random (thorough) and twice in the parent - all outputs byte-identical. history: generated sequences of "
    "construct(config) [result used on a line and discarded] and run(config, text) in ONE process without any reset: a "
    "repeated run returns the first answer, and a fresh interpreter that executes only the run steps (in reverse order) "
    "returns the same bytes. nosalt: with no salt the generated salt is reported in a WARNING record and re-running with it "
    "reproduces the output. Non-trivial = case with a $6$ secret, an overlapping word pair or user reserved words (seeds); "
    "history with a foreign construction between two runs; distinct by case."
)
ASSUMPTIONS = [
    "time dependence is observable only as a difference between runs seconds apart (no clock under the harness's control)",
    "reference for histories: a fresh interpreter executing the run steps only",
]

WORD_POOL = ["sea", "seattle", "sear", "net", "intranet", "zorg", "zorgon", "Kwyjibo", "mgmt"]
RES_POOL = ["zorgon", "MgmtVlan", "labkey", "Seattle1", "netops"]


def mkfa(c):
    from netconan.anonymize_files import FileAnonymizer

    return FileAnonymizer(**fa_kwargs(c))


def fa_kwargs(c):
    cfg = c["cfg"]
    pwd, ip, words, asn = c["features"]
    return dict(
        anon_pwd=bool(pwd),
        anon_ip=bool(ip),
        salt=cfg["salt"],
        sensitive_words=list(c["words"]) if words and c["words"] else None,
        as_numbers=list(c["asns"]) if asn and c["asns"] else None,
        reserved_words=list(c["reserved"]) if c["reserved"] else None,
        preserve_prefixes=None if cfg["prefixes"] is None else list(cfg["prefixes"]),
        preserve_networks=None if cfg.get("networks") is None else list(cfg["networks"]),
        preserve_suffix_v4=cfg["B4"],
        preserve_suffix_v6=cfg["B6"],
    )


def worker_dir(case):
    """Anonymize the case's files as one directory; return {name: output text, '__dump__': map}."""
    from netconan.anonymize_files import anonymize_files

    d = tempfile.mkdtemp(prefix="vf-c13-")
    try:
        os.makedirs(os.path.join(d, "in", "sub"))
        for name, text in case["files"]:
            with open(os.path.join(d, "in", name), "w", encoding="utf-8", newline="") as fh:
                fh.write(text)
        kw = fa_kwargs(case["opts"])
        kw.pop("anon_pwd")
        kw.pop("anon_ip")
        dump = os.path.join(d, "dump") if case["opts"]["features"][1] else None
        anonymize_files(os.path.join(d, "in"), os.path.join(d, "out"), bool(case["opts"]["features"][0]), bool(case["opts"]["features"][1]), dumpfile=dump, **kw)
        res = {}
        for name, _ in case["files"]:
            p = os.path.join(d, "out", name)
            res[name] = open(p, encoding="utf-8", newline="").read() if os.path.exists(p) else None
        if dump:
            res["__dump__"] = sorted(open(dump, encoding="utf-8").read().split("\n"))
        return res
    finally:
        shutil.rmtree(d, ignore_errors=True)


def worker_runs(case):
    """Reference for histories: only the run steps, in reverse order, in this (fresh) interpreter."""
    out = {}
    for k, (opts, text) in reversed(list(enumerate(case["runs"]))):
        out[str(k)] = core.run_io(mkfa(opts), text)
    return out


def _seed_nontrivial(c):
    ws = [w.lower() for w in c["opts"]["words"]] if c["opts"]["features"][2] else []
    ov = any(a != b and a in b for a in ws for b in ws)
    return ov or bool(c["opts"]["reserved"]) or any("$6$" in t for _, t in c["files"])


def check_seeds(case, ev):
    """case: {cases: [{opts, files}], seeds: [...]}"""
    fs = find_seeds(case, ev)
    return fs[0] if fs else None


def find_seeds(case, ev):
    """All distinct findings (by key) of the batch."""
    found = {}

    def add(f):
        found.setdefault(f.key, f)

    cases = case["cases"]
    base = []
    for c in cases:
        core.reset_globals()
        r, exc = guarded(worker_dir, c)
        if exc is not None:
            add(core.exc_finding(exc, {"cases": [c], "seeds": case["seeds"]}, "run/"))
            base.append(None)
            continue
        # a run with the SAME options on other input in between must not matter either
        guarded(worker_dir, dict(c, files=[["other.cfg", "password OtherSecret1\nusername u secret 5 $1$abcd$0123456789012345678901\n ip address 9.8.7.6 255.0.0.0\nhostname sea-zorgon\n"]]))
        r2, exc = guarded(worker_dir, c)
        if exc is None and r != r2:
            add(Finding("seeds/repeated-run-in-one-process-differs:%s" % _diff_kind(c, r, r2), "options %r: %s" % (c["opts"], _first_diff(r, r2)), {"cases": [c], "seeds": case["seeds"][:1]}))
            base.append(None)
            continue
        base.append(r)
    for hs in case["seeds"]:
        res = core.run_worker("c13", "worker_dir", cases, hs)
        for c, a, b in zip(cases, base, res):
            if a is None:
                continue
            if "exc" in b:
                add(Finding("seeds/worker-" + b["key"], b["exc"], {"cases": [c], "seeds": [hs]}))
                continue
            if a != b["ok"]:
                add(Finding(
                    "seeds/output-differs-between-processes:%s" % _diff_kind(c, a, b["ok"]),
                    "options %r: PYTHONHASHSEED=0 (parent) vs %s (fresh interpreter): %s" % (c["opts"], hs, _first_diff(a, b["ok"])),
                    {"cases": [c], "seeds": [hs]},
                ))
    ev.bulk(len(cases) * (len(case["seeds"]) + 2), sum(1 for x in cases if _seed_nontrivial(x)), sample=cases[0] if cases else None, classes={"features-" + "".join("pinw"[i] if f else "-" for i, f in enumerate(c["opts"]["features"])): 1 for c in cases})
    return list(found.values())


def _first_diff(a, b):
    for k in a:
        if a.get(k) != b.get(k):
            if isinstance(a[k], str) and isinstance(b.get(k), str):
                la, lb = a[k].split("\n"), b[k].split("\n")
                for x, y in zip(la, lb):
                    if x != y:
                        return "%s: %r vs %r" % (k, x, y)
            return "%s: %r vs %r" % (k, str(a[k])[:200], str(b.get(k))[:200])
    return "?"


def _diff_kind(c, a, b):
    d = _first_diff(a, b)
    if "$6$" in d:
        return "sha512"
    if "__dump__" in d:
        return "dump"
    if "netconanRemoved" in d or re.search(r"6e6574636f6e616e|1467418621", d):
        return "secret-numbering"
    if c["opts"]["features"][2] and c["opts"]["words"]:
        return "words"
    return "other"


def check_history(case, ev):
    """case: {ops: [["construct", opts, line] | ["run", opts, text]]}"""
    first = {}
    runs = []
    foreign_between = False
    seen_run = False
    for op in case["ops"]:
        if op[0] == "construct":
            fa, exc = guarded(mkfa, op[1])
            if exc is not None:
                return core.exc_finding(exc, case, "construct/")
            guarded(core.run_io, fa, op[2])
            if seen_run:
                foreign_between = True
        else:
            seen_run = True
            out, exc = guarded(lambda: core.run_io(mkfa(op[1]), op[2]))
            if exc is not None:
                return core.exc_finding(exc, case, "run/")
            key = repr((op[1], op[2]))
            if key in first and first[key][0] != out:
                return Finding("history/same-run-different-output-later-in-process", "options %r text %r: first %r, later %r" % (op[1], op[2][:200], first[key][0][:300], out[:300]), case)
            if key not in first:
                first[key] = (out, len(runs))
                runs.append([op[1], op[2]])
    ev.case(case, foreign_between and len(runs) >= 1, ["ops%d" % (len(case["ops"]) // 3 * 3), "runs%d" % min(len(runs), 4)])
    if not runs:
        return None
    res = core.run_worker("c13", "worker_runs", [{"runs": runs}], case.get("hashseed", 0))[0]
    if "exc" in res:
        return Finding("history/reference-" + res["key"], res["exc"], case)
    for key, (out, k) in first.items():
        if res["ok"][str(k)] != out:
            a, b = out.split("\n"), res["ok"][str(k)].split("\n")
            i = next((i for i, (x, y) in enumerate(zip(a, b)) if x != y), 0)
            return Finding(
                "history/output-depends-on-anonymizers-created-earlier-in-the-process",
                "options %r: in the history %r, in a fresh interpreter %r" % (runs[k][0], a[i] if i < len(a) else None, b[i] if i < len(b) else None),
                case,
            )
    return None


def _seed_random(case):
    """netconan draws a missing salt from the `random` module, which Hypothesis resets to the same
    state for every example: start it from a generated value instead, so that the generated salts
    vary from case to case (and stay a function of the case)."""
    import random

    if case.get("rseed") is not None:
        random.seed(case["rseed"])


def check_nosalt(case, ev):
    opts = dict(case["opts"], cfg=dict(case["opts"]["cfg"], salt=None))
    text = case["text"]
    _seed_random(case)
    with core.capture_logs(logging.WARNING) as recs:
        out1, exc = guarded(lambda: core.run_io(mkfa(opts), text))
    if exc is not None:
        return core.exc_finding(exc, case, "run/")
    ev.case(case, True, ["features-" + "".join("pinw"[i] if f else "-" for i, f in enumerate(opts["features"]))])
    salts = [m for lv, m in recs if "salt" in m.lower()]
    m = re.search(r'"([^"]*)"', salts[0]) if salts else None
    if not m:
        return Finding("nosalt/generated-salt-not-reported", "records: %r" % (recs[:3],), case)
    opts2 = dict(opts, cfg=dict(opts["cfg"], salt=m.group(1)))
    out2, exc = guarded(lambda: core.run_io(mkfa(opts2), text))
    if exc is not None:
        return core.exc_finding(exc, case, "run/")
    if out1 != out2:
        return Finding("nosalt/reported-salt-does-not-reproduce-output", "salt %r: %r vs %r" % (m.group(1), out1[:200], out2[:200]), case)
    return None


def check_nosalt_main(case, ev):
    """Two salt-less runs through netconan.netconan.main in one process: each must report its own
    generated salt (WARNING record) and be reproducible with it.  case: {opts, text}"""
    import os
    import shutil
    import tempfile

    from netconan.netconan import main

    o = case["opts"]
    pwd, ip, words, asn = o["features"]
    d = tempfile.mkdtemp(prefix="vf-c13m-")
    try:
        with open(os.path.join(d, "in.cfg"), "w", encoding="utf-8", newline="") as fh:
            fh.write(case["text"])
        base = ["-i", os.path.join(d, "in.cfg")] + (["-p"] if pwd else []) + (["-a"] if ip else []) + (["-w", ",".join(o["words"])] if words else []) + (["-n", ",".join(o["asns"])] if asn else [])
        ev.case(case, True, ["via-main"])
        _seed_random(case)
        for k in (1, 2):
            out1 = os.path.join(d, "out%d.cfg" % k)
            with core.capture_logs(logging.WARNING) as recs:
                _, exc = guarded(main, base + ["-o", out1])
            if exc is not None:
                return core.exc_finding(exc, case, "main/")
            salts = [m for lv, m in recs if "salt" in m.lower()]
            mm = re.search(r'"([^"]*)"', salts[0]) if salts else None
            if not mm:
                return Finding("nosalt/generated-salt-not-reported:%s" % ("first-run" if k == 1 else "later-run-in-the-same-process"), "run %d through main(): WARNING records %r" % (k, recs[:3]), case)
            out2 = os.path.join(d, "re%d.cfg" % k)
            try:
                _, exc = guarded(main, base + ["-o", out2, "-s", mm.group(1)])
            except SystemExit as e:
                return Finding("nosalt/reported-salt-refused-by-the-command-line", "run %d reported salt %r; re-running with -s <that salt> exits with %r" % (k, mm.group(1), e.code), case)
            if exc is not None:
                return core.exc_finding(exc, case, "main/")
            if open(out1, "rb").read() != open(out2, "rb").read():
                return Finding("nosalt/reported-salt-does-not-reproduce-output", "run %d, salt %r" % (k, mm.group(1)), case)
    finally:
        shutil.rmtree(d, ignore_errors=True)
    return None


def check_bigdir(case, ev):
    """A directory of several files of a few hundred lines each, with different secrets and addresses
    in every file, anonymized repeatedly with the same salt and options (and an IP-map dump): every
    run must give the same bytes.  case: {nfiles, nlines, tag, runs}"""
    import os
    import shutil
    import tempfile

    from netconan.anonymize_files import anonymize_files

    d = tempfile.mkdtemp(prefix="vf-c13b-")
    try:
        for i in range(case["nfiles"]):
            p_ = os.path.join(d, "in", "s%d" % (i % 3), "r%02d.cfg" % i)
            os.makedirs(os.path.dirname(p_), exist_ok=True)
            with open(p_, "w", encoding="utf-8") as fh:
                fh.write(" description Z\u00fcrich caf\u00e9 \u00c5re uplink %d\n" % i)
                for j in range(case["nlines"]):
                    h = core.derive("bigdir", case["tag"], i, j)
                    fh.write(["username u%d password Pw%x\n" % (j, h & 0xFFFFFF), " ip address %d.%d.%d.%d 255.255.255.0\n" % (11 + (h >> 24) % 200, (h >> 16) & 255, (h >> 8) & 255, h & 255), "snmp-server community Comm%x ro\n" % (h & 0xFFFFF), "neighbor 2001:db8:%x::%x remote-as 65001\n" % ((h >> 16) & 0xFFFF, h & 0xFFFF), "enable secret Sec%x\n" % (h & 0xFFFFFF)][j % 5])
        ref = None
        for k in range(case["runs"]):
            out = os.path.join(d, "out%d" % k)
            if k == 1:
                # between the runs: another directory, holding a file that cannot be decoded, is anonymized
                # in the same process (its failure must leave nothing behind that changes later runs)
                os.makedirs(os.path.join(d, "other", "in"))
                with open(os.path.join(d, "other", "in", "broken.cfg"), "wb") as fh_:
                    fh_.write(b"hostname r1\n description caf\xe9 \xff\xfe\n")
                with open(os.path.join(d, "other", "in", "fine.cfg"), "w", encoding="utf-8") as fh_:
                    fh_.write("hostname r\u00e9seau\n")
                guarded(anonymize_files, os.path.join(d, "other", "in"), os.path.join(d, "other", "out"), True, True, salt="other")
            if k and ref is not None:
                # later runs write over what an earlier, LONGER run left at the same paths (and dump path)
                for rel_, data_ in ref[0].items():
                    os.makedirs(os.path.dirname(os.path.join(out, rel_)), exist_ok=True)
                    with open(os.path.join(out, rel_), "wb") as fh_:
                        fh_.write(data_ + b"! left over from an earlier run\n" * 25)
                with open(os.path.join(d, "dump%d" % k), "wb") as fh_:
                    fh_.write(ref[1] + b"1.2.3.4\t5.6.7.8\n" * 25)
            _, exc = guarded(anonymize_files, os.path.join(d, "in"), out, True, True, salt="Tsalt", dumpfile=os.path.join(d, "dump%d" % k))
            if exc is not None:
                return core.exc_finding(exc, case, "anonymize_files/")
            tree = {}
            for root, _dirs, files in os.walk(out):
                for f in files:
                    tree[os.path.relpath(os.path.join(root, f), out)] = open(os.path.join(root, f), "rb").read()
            if k == 0:
                for rel_, data_ in tree.items():
                    if "Z\u00fcrich caf\u00e9".encode("utf-8") not in data_:
                        return Finding("bigdir/non-ascii-text-not-carried-over", "file %s: %r" % (rel_, data_[:80]), case)
            dump = open(os.path.join(d, "dump%d" % k), "rb").read()
            if ref is None:
                ref = (tree, dump)
                continue
            if tree != ref[0]:
                bad = sorted(r for r in ref[0] if tree.get(r) != ref[0][r])
                return Finding("bigdir/repeated-run-gives-different-output", "run %d of the same directory with the same salt differs from run 0 in %r" % (k, bad[:4]), case)
            if dump != ref[1]:
                return Finding("bigdir/repeated-run-gives-different-ip-map-dump", "run %d: dump differs from run 0" % k, case)
    finally:
        shutil.rmtree(d, ignore_errors=True)
    ev.case(case, case["nfiles"] >= 2 and case["nlines"] >= 200, ["directory-of-long-files", "files%d" % case["nfiles"]])
    return None


def t_bigdir(shard, nshards, seed, ev, known, n=3):
    cases = [{"nfiles": 3 + (core.derive("bd", seed, k) % 6), "nlines": 300 + core.derive("bdl", seed, k) % 500, "tag": core.derive("bdt", seed, k) % 100000, "runs": 3} for k in range(n * nshards) if k % nshards == shard]
    return core.enum_drive(cases, check_bigdir, ev, known, "bigdir")


REPLAY = {"bigdir": check_bigdir, "nosalt_main": check_nosalt_main, "seeds": check_seeds, "history": check_history, "nosalt": check_nosalt}

# ---------------------------------------------------------------- generators


@st.composite
def _opts(draw, networks="maybe"):
    cfg = draw(G.config(networks=networks))
    if draw(st.booleans()):
        # salts whose first character is one of the 65 $9$ characters (it selects the $9$ rendering)
        cfg["salt"] = draw(st.sampled_from(["Qa", "za", "Fx", "3a", "na", "Bb", "7c", "ia", "Hq", "-x", ".y", "T1"]))
    return {
        "cfg": cfg,
        "features": draw(st.lists(st.booleans(), min_size=4, max_size=4).filter(any)),
        "words": draw(st.lists(st.sampled_from(WORD_POOL), min_size=1, max_size=4, unique=True)),
        "reserved": draw(st.lists(st.sampled_from(RES_POOL), max_size=2, unique=True)),
        "asns": draw(st.lists(st.sampled_from(["65001", "64512", "123", "4200000001"]), min_size=1, max_size=2, unique=True)),
    }


@st.composite
def _text(draw, optss, max_lines=8):
    pool = [c for o in optss for c in (o["cfg"].get("networks") or []) + (o["cfg"]["prefixes"] or [])] or ["10.0.0.0/8"]
    words = sorted({w for o in optss for w in o["words"] + o["reserved"]})
    lines = []
    for _ in range(draw(st.integers(1, max_lines))):
        k = draw(st.integers(0, 6))
        if k == 0:
            form = draw(st.sampled_from(S.POS_FORMS))
            vals = [draw(st.sampled_from(words)) if draw(st.integers(0, 5)) == 0 and "exact" not in form.text_kw else draw(S.secret_for(form))[1] for _s in range(form.slots)]
            lines.append(S.render(form, draw(st.integers(0, 20)), draw(st.integers(0, 5)), vals)[0])
        elif k == 1:
            lines.append("set password " + draw(st.one_of(S.sha512_value(), S.j9_value(), S.j9_value(), S.md5_value(), S.type7_value(), S.chars(S.CRYPT64, 22, 22).map(lambda h: "$1$$" + h), S.chars(S.CRYPT64, 10, 30).map(lambda h: "$6$$" + h))))
        elif k == 2:
            w = draw(st.sampled_from(words))
            lines.append("hostname %s%s-%s %s" % (draw(st.sampled_from(["", "x"])), w, draw(st.sampled_from(words)), draw(st.sampled_from([w.upper(), "sea seattle sear", "intranet"]))))
        elif k == 3:
            lines.append(" ip address %s 255.255.255.0" % G.v4_canon(draw(G.addr_near(pool))))
        elif k == 4:
            lines.append("neighbor %s remote-as %s" % (draw(G.v6_spelling(draw(G.v6_int)))[0], draw(st.sampled_from(["65001", "123", "64512"]))))
        elif k == 5:
            lines.append("password " + draw(st.sampled_from(words)))
        else:
            lines.append(draw(G.token_line(cfg=optss[0]["cfg"]))["line"])
    return "".join(l.replace("\n", " ") + "\n" for l in lines)


@st.composite
def _seed_case(draw):
    o = draw(_opts())
    files = [["f%d.cfg" % i if i != 1 else "sub/g.cfg", draw(_text([o]))] for i in range(draw(st.integers(1, 3)))]
    return {"opts": o, "files": files}


@st.composite
def _history_case(draw):
    pool = [draw(_opts(networks="always" if draw(st.booleans()) else "maybe")) for _ in range(draw(st.integers(2, 3)))]
    if draw(st.booleans()):
        # same options except the reserved words / networks: the leak, if any, is then visible
        twin = dict(pool[0], reserved=[], cfg=dict(pool[0]["cfg"], networks=None, prefixes=None if draw(st.booleans()) else pool[0]["cfg"]["prefixes"]))
        pool.append(twin)
    texts = [draw(_text(pool, max_lines=5)) for _ in range(2)]
    ops = []
    for _ in range(draw(st.integers(2, 7))):
        o = draw(st.sampled_from(pool))
        if draw(st.integers(0, 2)) == 0:
            ops.append(["construct", o, draw(st.sampled_from(texts))])
        else:
            ops.append(["run", o, draw(st.sampled_from(texts))])
    if not any(op[0] == "run" for op in ops):
        ops.append(["run", pool[-1], texts[0]])
    return {"ops": ops}


@st.composite
def _nosalt_case(draw):
    o = draw(_opts())
    return {"opts": o, "text": draw(_text([o])), "rseed": draw(st.integers(0, 2**32 - 1))}


def t_seeds(shard, nshards, seed, ev, known, n=40, seeds=(0, 1, 2, 3)):
    cases = core.collect_cases(_seed_case(), n, seed)
    out = []
    for f in find_seeds({"cases": cases, "seeds": list(seeds)}, ev):
        if f.key in known:
            ev.excluded_known[f.key] += 1
            continue
        f.check = "seeds"
        out.append(f)
    return out


def _smaller_history(case):
    ops = case["ops"]
    for i in range(len(ops)):
        if sum(1 for o in ops if o[0] == "run") > 1 or ops[i][0] != "run":
            yield dict(case, ops=ops[:i] + ops[i + 1 :])
    for i, op in enumerate(ops):
        lines = op[2].split("\n")
        if len(lines) > 2:
            for j in range(len(lines) - 1):
                yield dict(case, ops=ops[:i] + [[op[0], op[1], "\n".join(lines[:j] + lines[j + 1 :])]] + ops[i + 1 :])


def t_history(shard, nshards, seed, ev, known, n=30):
    fs = core.hyp_drive(_history_case(), check_history, n, seed, ev, known, check_name="history", shrink=False)
    return [core.greedy_minimize(f, check_history, _smaller_history, budget=40) for f in fs]


def t_nosalt(shard, nshards, seed, ev, known, n=100):
    return core.hyp_drive(_nosalt_case(), check_nosalt, n, seed, ev, known, check_name="nosalt")


def t_nosalt_main(shard, nshards, seed, ev, known, n=30):
    return core.hyp_drive(_nosalt_case(), check_nosalt_main, n, seed, ev, known, check_name="nosalt_main")


def plan(tier):
    q = tier == "quick"
    return [
        Task("seeds", t_seeds, shards=4 if q else 16, n=40 if q else 600, seeds=(0, 1, 2, 3) if q else (0, 1, 2, 3, 4, 5, 6, 7, "random")),
        Task("history", t_history, shards=6 if q else 16, n=25 if q else 600),
        Task("nosalt", t_nosalt, shards=1 if q else 4, n=150 if q else 3000),
        Task("bigdir", t_bigdir, shards=3 if q else 16, n=2 if q else 12),
        Task("nosalt_main", t_nosalt_main, shards=2 if q else 8, n=120 if q else 1500),
    ]
