"""C04 - preserved prefixes and preserved host bits survive anonymization."""

import ipaddress

from hypothesis import strategies as st

from .. import core
from ..core import Finding, Task, guarded
from ..gen import ip as G

ID = "C04"
RULE = (
    "addr: Hypothesis (cfg, address) with the address constructed inside / first / last / just outside "
    "(one prefix bit flipped, biased to the last 4 bits) a preserved prefix of the configuration, or uniform; "
    "both families for host bits; a second address equal above bit B with another suffix. Oracles: "
    "membership in every preserved prefix (default list written out in the harness) is kept both ways; low B "
    "bits unchanged; image>>B independent of the suffix (same and fresh anonymizer). io: the host-bit oracle for both families through one FileAnonymizer (IPv4-mapped and other shaped IPv6 addresses, B6 != B4). edges: first/last address of "
    "each of the 7 default prefixes x salts (exhaustive over that grid). bulk: one anonymizer first processes 24000 (quick) / "
    "60000 (thorough) spread addresses, then addresses next to its preserved prefixes are checked as above. Non-trivial = image != input and "
    "(address within 4 bits of a preserved-prefix boundary, or 0<B<32 with differing suffixes); distinct by case."
)
ASSUMPTIONS = [
    "membership is computed on integers by the harness (network address/length parsed with ipaddress)",
    "default preserved list = class A-E prefixes + RFC 1918 blocks, as stated in the property",
]


def check_addr(case, ev):
    fam, cfg, x, x2 = case["fam"], case["cfg"], case["x"], case["x2"]
    W = 32 if fam == 4 else 128
    B = cfg["B4"] if fam == 4 else cfg["B6"]
    import logging

    root = logging.getLogger()
    old_level = root.level
    if case.get("debug"):
        root.setLevel(logging.DEBUG)  # what `--log-level DEBUG` does; must not change any result
    try:
        an, exc = guarded(G.mk, cfg, fam)
    finally:
        root.setLevel(old_level)
    if exc is not None:
        return core.exc_finding(exc, case, "ctor/")
    y, exc = guarded(an.anonymize, x)
    if exc is not None:
        return core.exc_finding(exc, case, "anonymize/")
    y2, exc = guarded(an.anonymize, x2)
    if exc is not None:
        return core.exc_finding(exc, case, "anonymize/")
    fresh, exc = guarded(G.mk, cfg, fam)
    y2f, exc = guarded(fresh.anonymize, x2)
    if exc is not None:
        return core.exc_finding(exc, case, "anonymize/")
    cls = ["v%d" % fam, "mode-" + cfg.get("mode", "?"), "B-%s" % ("0" if B == 0 else "32" if B == 32 else "mid")] + (["debug-logging"] if case.get("debug") else [])
    near = False
    f = None
    if fam == 4:
        for p in G.effective_prefixes(cfg):
            v, l = G.parse_cidr(p)
            inside = G.net_of(x, l) == v
            d = G.cpl(x, v, 32)
            if l and d >= l - 4:
                near = True
            if l > 32 - B:
                cls.append("prefix-longer-than-anonymized-part")
            if inside:
                cls.append("inside")
            if (G.net_of(y, l) == v) != inside and f is None:
                f = Finding(
                    "prefix/%s:%s" % ("left" if inside else "entered", "default-list" if cfg["prefixes"] is None and p in G.DEFAULT_PREFIXES else "user-list"),
                    "cfg=%r: %s %s %s but image %s %s" % (cfg, G.v4_canon(x), "in" if inside else "not in", p, G.v4_canon(y), "is not" if inside else "is"),
                    case,
                )
    mask = (1 << B) - 1
    if f is None and (y & mask) != (x & mask):
        f = Finding("hostbits/changed:v%d" % fam, "cfg=%r: anonymize(%d)=%d changes the low %d bits" % (cfg, x, y, B), case)
    if f is None and (y >> B) != (y2 >> B):
        f = Finding("hostbits/leading-bits-depend-on-suffix:v%d" % fam, "cfg=%r: %d,%d equal above bit %d, images %d,%d are not" % (cfg, x, x2, B, y, y2), case)
    if f is None and y2 != y2f:
        f = Finding("hostbits/differs-on-fresh-instance:v%d" % fam, "cfg=%r: anonymize(%d) = %d after %d, %d alone" % (cfg, x2, y2, x, y2f), case)
    nt = y != x and (near or (0 < B < 32 and (x & mask) != (x2 & mask)))
    if near:
        cls.append("near-boundary")
    ev.case(case, nt, cls)
    return f


def check_edges(case, ev):
    """first/last address of every default prefix stays inside, neighbours outside stay outside."""
    salt, B = case["salt"], case["B"]
    cfg = {"salt": salt, "B4": B, "B6": B, "prefixes": None, "networks": None}
    an, exc = guarded(G.mk4, cfg)
    if exc is not None:
        return core.exc_finding(exc, case, "ctor/")
    n = 0
    for p in G.DEFAULT_PREFIXES:
        v, l = G.parse_cidr(p)
        last = v | ((1 << (32 - l)) - 1)
        for x in (v, last, (v - 1) & G.M32, (last + 1) & G.M32):
            y, exc = guarded(an.anonymize, x)
            if exc is not None:
                return core.exc_finding(exc, case, "anonymize/")
            n += 1
            for p2 in G.DEFAULT_PREFIXES:
                v2, l2 = G.parse_cidr(p2)
                if (G.net_of(x, l2) == v2) != (G.net_of(y, l2) == v2):
                    ev.bulk(n, n)
                    return Finding("prefix/edge:default-list", "salt=%r B=%d: %s -> %s changes membership in %s" % (salt, B, G.v4_canon(x), G.v4_canon(y), p2), case)
    ev.bulk(n, n, sample=case)
    return None


def check_bulk(case, ev):
    """case: {cfg, n, start, stride, probes}: after one anonymizer has processed n spread IPv4
    addresses, preserved prefixes and host bits must still be honoured (long runs / big inputs)."""
    cfg, n = case["cfg"], case["n"]
    an, exc = guarded(G.mk4, cfg)
    if exc is not None:
        return core.exc_finding(exc, case, "ctor/")
    mult = case["stride"] | 1
    for i in range(n):
        _, exc = guarded(an.anonymize, (case["start"] + i * mult) & G.M32)
        if exc is not None:
            return core.exc_finding(exc, case, "anonymize/")
    ev.bulk(1, 1, sample={k: case[k] for k in ("cfg", "n")})
    ev.notes["addresses_loaded"] = ev.notes.get("addresses_loaded", 0) + n
    B = cfg["B4"]
    for x in case["probes"]:
        y, exc = guarded(an.anonymize, x)
        if exc is not None:
            return core.exc_finding(exc, case, "anonymize/")
        for p in G.effective_prefixes(cfg):
            v, l = G.parse_cidr(p)
            if (G.net_of(x, l) == v) != (G.net_of(y, l) == v):
                return Finding("bulk/preserved-prefix-not-honoured-after-long-run", "cfg=%r: after %d addresses %s -> %s changes membership in %s" % (cfg, n, G.v4_canon(x), G.v4_canon(y), p), case)
        if (x ^ y) & ((1 << B) - 1):
            return Finding("bulk/host-bits-changed-after-long-run", "cfg=%r: %d -> %d" % (cfg, x, y), case)
    return None


def check_io(case, ev):
    """The host-bit and prefix oracles through FileAnonymizer.anonymize_io (both families in one
    object, as wired by the file-level API): {cfg, x4, x6}"""
    import ipaddress

    cfg, x4, x6 = case["cfg"], case["x4"], case["x6"]
    fa, exc = guarded(G.file_anonymizer, cfg)
    if exc is not None:
        return core.exc_finding(exc, case, "ctor/")
    line = "%s %s" % (G.v4_canon(x4), ipaddress.IPv6Address(x6))
    if case.get("pre"):
        # an earlier anonymizer in the same process with the same salt and host-bit counts but OTHER
        # preserved prefixes / networks handles the same text first
        pa, exc = guarded(G.file_anonymizer, dict(cfg, prefixes=case["pre"]["prefixes"], networks=case["pre"]["networks"]))
        if exc is not None:
            return core.exc_finding(exc, case, "ctor/")
        guarded(core.run_io, pa, line + "\n")
    if case.get("cli") and cfg["salt"] and not cfg["salt"].startswith("-") and cfg["prefixes"] != [] and "\x00" not in cfg["salt"]:
        # through the command line, which has one host-bit option for both families
        import os
        import shutil
        import tempfile

        from netconan.netconan import main

        cfg = dict(cfg, B6=cfg["B4"])
        d = tempfile.mkdtemp(prefix="vf-c04-")
        try:
            with open(os.path.join(d, "in.cfg"), "w") as fh:
                fh.write(line + "\n")
            argv = ["-a", "-i", os.path.join(d, "in.cfg"), "-o", os.path.join(d, "out.cfg"), "-s", cfg["salt"], "--preserve-host-bits", str(cfg["B4"])]
            argv += (["--preserve-prefixes", ",".join(cfg["prefixes"])] if cfg["prefixes"] else []) + (["--preserve-addresses", ",".join(cfg["networks"])] if cfg.get("networks") else [])
            _, exc = guarded(main, argv)
            out = open(os.path.join(d, "out.cfg")).read() if exc is None and os.path.exists(os.path.join(d, "out.cfg")) else ""
        finally:
            shutil.rmtree(d, ignore_errors=True)
    else:
        out, exc = guarded(core.run_io, fa, line + "\n", bool(case.get("nonl")))
    if exc is not None:
        return core.exc_finding(exc, case, "io/")
    parts = out.split()
    ev.case(case, True, ["io", "B6>B4" if cfg["B6"] > cfg["B4"] else "B6<=B4"] + (["v4-mapped"] if (x6 >> 32) == 0xFFFF else []))
    try:
        y4, y6 = int(ipaddress.IPv4Address(parts[0])), int(ipaddress.IPv6Address(parts[1]))
    except Exception:
        return Finding("io/output-not-addresses", "%r -> %r" % (line, out), case)
    if not G.is_mask(x4) and (x4 ^ y4) & ((1 << cfg["B4"]) - 1):
        return Finding("hostbits/changed:v4:via-io", "cfg=%r: %r -> %r" % (cfg, line, out), case)
    if (x6 ^ y6) & ((1 << cfg["B6"]) - 1):
        return Finding("hostbits/changed:v6:via-io", "cfg=%r: %r -> %r (low %d bits must be kept)" % (cfg, line, out, cfg["B6"]), case)
    if not G.is_mask(x4) and not any(G.in_net(x4, c) for c in cfg.get("networks") or []):
        ref4 = G.mk4(cfg).anonymize(x4)
        if y4 != ref4:
            return Finding("io/v4-image-differs-from-stand-alone-anonymizer", "cfg=%r%s: %r -> %r, IpAnonymizer alone gives %s" % (cfg, " (after an anonymizer with prefixes %r / networks %r)" % (case["pre"]["prefixes"], case["pre"]["networks"]) if case.get("pre") else "", line, out, G.v4_canon(ref4)), case)
    ref6 = G.mk6(cfg).anonymize(x6)
    if y6 != ref6:
        return Finding("io/v6-image-differs-from-stand-alone-anonymizer", "cfg=%r: %r -> %r, IpV6Anonymizer alone gives %s" % (cfg, line, out, ipaddress.IPv6Address(ref6)), case)
    return None


def check_mixedlist(case, ev):
    """A preserved-prefix list in which an IPv6 prefix stands between the IPv4 ones (the lists are documented
    as "IP prefixes" and such an entry is accepted): every IPv4 prefix of the list, and every preserved
    network, is still honoured.  case: {salt, B, prefixes: [...], networks: [...]|None, probes: {prefix: [int]}}"""
    from netconan.ip_anonymization import IpAnonymizer

    an, exc = guarded(lambda: IpAnonymizer(case["salt"], list(case["prefixes"]), None if case["networks"] is None else list(case["networks"]), preserve_suffix=case["B"]))
    if exc is not None:
        return core.exc_finding(exc, case, "ctor/")
    ev.case(case, True, ["ipv6-entry-in-the-list", "position%d" % min(next((i for i, p in enumerate(case["prefixes"]) if ":" in p), 9), 3)])
    for p, xs in case["probes"].items():
        for x in xs:
            y, exc = guarded(an.anonymize, x)
            if exc is not None:
                return core.exc_finding(exc, case, "anonymize/")
            if not G.in_net(y, p):
                return Finding("prefix/left:list-with-an-ipv6-entry", "prefixes=%r networks=%r: %s (in %s) -> %s" % (case["prefixes"], case["networks"], G.v4_canon(x), p, G.v4_canon(y)), case)
    return None


REPLAY = {"mixedlist": check_mixedlist, "io": check_io, "addr": check_addr, "edges": check_edges, "bulk": check_bulk}


@st.composite
def _case(draw):
    fam = draw(st.sampled_from([4, 4, 4, 6]))
    cfg = draw(G.config())
    if fam == 4:
        pf = G.effective_prefixes(cfg)
        x = draw(G.addr_near(pf)) if pf and draw(st.integers(0, 4)) else draw(G.u32)
        B = cfg["B4"]
    else:
        x = draw(G.v6_int)
        B = cfg["B6"]
    x2 = ((x >> B) << B) | (draw(st.integers(0, (1 << B) - 1)) if B else 0)
    return {"fam": fam, "cfg": cfg, "x": x, "x2": x2, "debug": draw(st.integers(0, 3)) == 0}


@st.composite
def _bulk_case(draw, n):
    cfg = draw(G.config())
    cfg["B4"] = draw(st.sampled_from([0, 0, 4]))
    pf = G.effective_prefixes(cfg) or ["0.0.0.0/0"]
    return {"cfg": cfg, "n": n, "start": draw(G.u32), "stride": draw(st.integers(1 << 18, G.M32)), "probes": [draw(G.addr_near(pf)) for _ in range(40)]}


@st.composite
def _mixed_case(draw):
    v4 = draw(G.cidr_list(min_size=1, max_size=4, lengths=st.integers(1, 30)))
    nets = draw(st.one_of(st.none(), G.cidr_list(min_size=1, max_size=2, lengths=st.integers(8, 30))))
    k = draw(st.integers(0, len(v4)))
    prefixes = v4[:k] + [draw(st.sampled_from(["2001:db8::/32", "fe80::/10", "::/0", "2001:db8:1::/48"]))] + v4[k:]
    if nets is not None and draw(st.booleans()):
        j = draw(st.integers(0, len(nets)))
        nets = nets[:j] + ["2001:db8:ffff::/48"] + nets[j:]
    probes = {}
    for p in v4 + [n for n in (nets or []) if ":" not in n]:
        v, l = G.parse_cidr(p)
        probes[p] = [v | (draw(G.u32) & ((1 << (32 - l)) - 1)) for _ in range(3)]
    return {"salt": draw(G.salts), "B": draw(st.sampled_from([0, 0, 8, 4])), "prefixes": prefixes, "networks": nets, "probes": probes}


def t_mixedlist(shard, nshards, seed, ev, known, n=300):
    return core.hyp_drive(_mixed_case(), check_mixedlist, n, seed, ev, known, check_name="mixedlist")


def t_bulk(shard, nshards, seed, ev, known, n=1, size=24000):
    # the first examples Hypothesis generates are the simplest ones (empty lists, zero values): skip them
    cases = core.collect_cases(_bulk_case(size), n + 3, seed)[3:]
    return core.enum_drive(cases, check_bulk, ev, known, "bulk")


@st.composite
def _io_case(draw):
    cfg = draw(G.config(networks="never"))
    x4 = draw(G.u32)
    while G.is_mask(x4):
        x4 = (x4 * 7 + 12345) & G.M32
    return {"cfg": cfg, "x4": x4, "x6": draw(G.v6_int), "nonl": draw(st.integers(0, 3)) == 0, "cli": draw(st.integers(0, 2)) == 0, "pre": {"prefixes": draw(G.cidr_list(max_size=3)), "networks": draw(st.one_of(st.none(), G.cidr_list(max_size=2, lengths=st.integers(8, 32))))} if draw(st.integers(0, 2)) == 0 else None}


def check_io_long(case, ev):
    """One physical line (> 64 KiB) of addresses next to the preserved prefixes through anonymize_io:
    every output token keeps its membership in every preserved prefix and its host bits."""
    import ipaddress

    cfg, xs = case["cfg"], case["xs"]
    fa, exc = guarded(G.file_anonymizer, cfg)
    if exc is not None:
        return core.exc_finding(exc, case, "ctor/")
    line = " ".join(G.v4_canon(x) for x in xs)
    out, exc = guarded(core.run_io, fa, line + "\n")
    if exc is not None:
        return core.exc_finding(exc, case, "io/")
    parts = out.split()
    ev.bulk(len(xs), len(xs), sample={"cfg": cfg, "tokens": len(xs)})
    if len(parts) != len(xs):
        return Finding("io/long-line-token-count-changed", "%d tokens in, %d out" % (len(xs), len(parts)), {"cfg": cfg, "xs": xs[:50]})
    pf = [G.parse_cidr(p) for p in G.effective_prefixes(cfg)]
    for x, t in zip(xs, parts):
        try:
            y = int(ipaddress.IPv4Address(t))
        except ValueError:
            return Finding("io/long-line-output-not-an-address", "%s -> %r" % (G.v4_canon(x), t), {"cfg": cfg, "xs": xs[:50]})
        if G.is_mask(x):
            continue
        if (x ^ y) & ((1 << cfg["B4"]) - 1) or any((G.net_of(x, l) == v) != (G.net_of(y, l) == v) for v, l in pf):
            return Finding("io/long-line-prefix-or-host-bits-not-kept", "cfg=%r: in a line of %d tokens %s -> %s" % (cfg, len(xs), G.v4_canon(x), t), case)
    return None


REPLAY["io_long"] = check_io_long


def t_io_long(shard, nshards, seed, ev, known, n=6000):
    out = []
    for k in range(nshards):
        if k % nshards != shard:
            continue
        cfg = {"salt": "il%d" % k, "B4": [8, 0][k % 2], "B6": 8, "prefixes": None, "networks": None, "mode": "default"}
        xs = []
        for i in range(n):
            h = core.derive("il", seed, k, i)
            v, l = G.parse_cidr(G.DEFAULT_PREFIXES[h % 7])
            x = v | ((h >> 8) & ((1 << (32 - l)) - 1))
            if (h >> 3) % 4 == 0:
                x ^= 1 << (31 - (h >> 5) % max(l, 1))
            xs.append(x & G.M32)
        out.append({"cfg": cfg, "xs": xs})
    return core.enum_drive(out, check_io_long, ev, known, "io_long")


def t_io(shard, nshards, seed, ev, known, n=300):
    return core.hyp_drive(_io_case(), check_io, n, seed, ev, known, check_name="io")


def t_addr(shard, nshards, seed, ev, known, n=1000):
    return core.hyp_drive(_case(), check_addr, n, seed, ev, known, check_name="addr")


def t_edges(shard, nshards, seed, ev, known, nsalts=40):
    cases = []
    for i in range(nsalts):
        if i % nshards == shard:
            for B in (0, 8, 24):
                cases.append({"salt": "salt%d" % i if i else "", "B": B})
    fs = core.enum_drive(cases, check_edges, ev, known, "edges")
    ev.exhaustive["default_prefix_edges(7 prefixes x first/last/before/after x salts x B in {0,8,24})"] = len(cases) * 28
    return fs


def plan(tier):
    q = tier == "quick"
    return [
        Task("addr", t_addr, shards=4 if q else 16, n=2000 if q else 50000),
        Task("io", t_io, shards=2 if q else 8, n=400 if q else 10000),
        Task("io_long", t_io_long, shards=2 if q else 6, n=6000 if q else 20000),
        Task("mixedlist", t_mixedlist, shards=1 if q else 8, n=300 if q else 6000),
        Task("edges", t_edges, shards=2 if q else 8, nsalts=40 if q else 400),
        Task("bulk", t_bulk, shards=3 if q else 8, n=1 if q else 4, size=24000 if q else 60000),
    ]
