"""C01 - IP anonymization preserves common-prefix length (hence is injective, a permutation)."""

from hypothesis import strategies as st

from .. import core
from ..core import Finding, Task, guarded
from ..gen import ip as G

ID = "C01"
RULE = (
    "pairs: Hypothesis pairs (a,b) with common-prefix length k drawn uniformly in 0..32 / 0..128, "
    "plus groups of 3-6 addresses derived from each other (all pairs checked), under generated "
    "(salt, host bits 0..32, preserved-prefix mode default/empty/list/nested, preserved networks), half of them "
    "starting from shaped addresses (IPv4-mapped / link-local / zero-run IPv6, IPv4 next to a preserved prefix); text: the same pair relation through the text layer "
    "(address tokens, optionally with /len, through anonymize_ip_addr / anonymize_io, images parsed from the output); bulk: "
    "thousands of spread and dense addresses through ONE anonymizer, level-by-level one-to-one check over the whole set; "
    "exh_real: real IpAnonymizer/IpV6Anonymizer with B = 32 - w host bits, ALL 2^w values of the "
    "anonymized part, level-by-level function+injectivity check (equivalent to all pairs); exh_generic: "
    "the width-generic base class at widths 4..10 (quick) / 4..12 (thorough) with every B in 0..w, all "
    "addresses, image == whole space and all levels. Non-trivial pair = a != b and both images differ "
    "from the inputs; distinct by (family, cfg, a, b). Exhaustive spaces count every address."
)
ASSUMPTIONS = [
    "salts are text encodable as UTF-8; preserved prefixes/networks are canonical IPv4 CIDRs (what ipaddress.ip_network accepts)",
    "host-bit counts are 0..32 for both families (the CLI's range)",
]


def check_group(case, ev):
    """case: {fam, cfg, addrs:[ints]} - all pairs must keep their common-prefix length."""
    fam, cfg, addrs = case["fam"], case["cfg"], case["addrs"]
    W = 32 if fam == 4 else 128
    an, exc = guarded(G.mk, cfg, fam)
    if exc is not None:
        return core.exc_finding(exc, case, "ctor/")
    for v in case.get("pre", []):
        # earlier undo requests on the same instance (the images of the pairs must not depend on them)
        _, exc = guarded(an.deanonymize, v)
        if exc is not None:
            return core.exc_finding(exc, case, "deanonymize/")
    imgs = []
    for a in addrs:
        y, exc = guarded(an.anonymize, a)
        if exc is not None:
            return core.exc_finding(exc, case, "anonymize/")
        if not (isinstance(y, int) and 0 <= y < (1 << W)):
            return Finding("image-out-of-range:v%d" % fam, "anonymize(%d) = %r" % (a, y), case)
        imgs.append(y)
    B = cfg["B4"] if fam == 4 else cfg["B6"]
    nt = False
    cls = ["v%d" % fam, "mode-" + cfg.get("mode", "?"), "B-%s" % ("0" if B == 0 else "32" if B == 32 else "mid")]
    if cfg.get("networks"):
        cls.append("with-networks")
    if case.get("pre"):
        cls.append("after-undo-requests")
    bad = None
    for i in range(len(addrs)):
        for j in range(i + 1, len(addrs)):
            a, b, A, Bi = addrs[i], addrs[j], imgs[i], imgs[j]
            k = G.cpl(a, b, W)
            cls.append("k%s" % ("=W" if k == W else k // 8 * 8))
            if a != b and A != a and Bi != b:
                nt = True
            k2 = G.cpl(A, Bi, W)
            if k2 != k and bad is None:
                kind = "collision" if (A == Bi and a != b) else ("prefix-shortened" if k2 < k else "prefix-lengthened")
                where = "host-bits" if k >= W - B else "anonymized-part"
                bad = Finding(
                    "cpl/%s:v%d:%s" % (kind, fam, where),
                    "cfg=%r: %s,%s share %d bits but images %s,%s share %d" % (cfg, a, b, k, A, Bi, k2),
                    case,
                )
    ev.case(case, nt, cls)
    return bad


def _levels_ok(vals, imgs, w):
    """vals/imgs: lists of w-bit ints (all 2^w inputs).  Returns None or (depth, description)."""
    for d in range(1, w + 1):
        m = {}
        sh = w - d
        for v, y in zip(vals, imgs):
            p, q = v >> sh, y >> sh
            if m.setdefault(p, q) != q:
                return d, "prefix %s of length %d maps to two image prefixes" % (format(p, "0%db" % d), d)
        if len(set(m.values())) != len(m):
            return d, "two input prefixes of length %d share an image prefix" % d
    return None


def check_exh_real(case, ev):
    """case: {fam, cfg, w, suffix, top}: all 2^w values of the anonymized part of a real anonymizer.

    For IPv6 the anonymized part is 128-B bits wide; `top` fixes the leading 128-B-w bits and the w
    bits below them are enumerated (B <= 32 as on the command line).
    """
    fam, cfg, w = case["fam"], case["cfg"], case["w"]
    W = 32 if fam == 4 else 128
    B = cfg["B4"] if fam == 4 else cfg["B6"]
    an, exc = guarded(G.mk, cfg, fam)
    if exc is not None:
        return core.exc_finding(exc, case, "ctor/")
    suffix = case["suffix"] & ((1 << B) - 1)
    top = case.get("top", 0)
    vals = list(range(1 << w))
    imgs = []
    for v in vals:
        x = (((top << w) | v) << B) | suffix
        y, exc = guarded(an.anonymize, x)
        if exc is not None:
            return core.exc_finding(exc, case, "anonymize/")
        if (y & ((1 << B) - 1)) != suffix:
            return Finding("exh/host-bits-changed:v%d" % fam, "cfg=%r anonymize(%d)=%d" % (cfg, x, y), case)
        imgs.append(y >> B)
    ev.bulk(len(vals), len(vals), sample={"fam": fam, "cfg": cfg, "w": w}, classes={"v%d" % fam: len(vals)})
    if fam == 4 and W - B == w:
        r = _levels_ok(vals, imgs, w)
        if r is None and sorted(imgs) != vals:
            r = (w, "image is not a permutation of the space")
    else:
        # leading `top` bits are shared by all inputs: they must be shared by all images, and the
        # w enumerated bits below them must be permuted level by level
        tops = {y >> w for y in imgs}
        if len(tops) != 1:
            r = (0, "images of addresses sharing the leading bits do not share them")
        else:
            r = _levels_ok(vals, [y & ((1 << w) - 1) for y in imgs], w)
    if r is not None:
        return Finding("exh/levels:v%d" % fam, "cfg=%r w=%d depth %d: %s" % (cfg, w, r[0], r[1]), case)
    return None


_TINY = {}


def tiny_class():
    from netconan.ip_anonymization import _BaseIpAnonymizer

    if "c" not in _TINY:

        class Tiny(_BaseIpAnonymizer):
            def __init__(self, salt, width, B):
                super().__init__(salt, width, preserve_suffix=B)

            @classmethod
            def get_addr_pattern(cls):
                return None

            @classmethod
            def make_addr(cls, s):
                return int(s)

            @classmethod
            def make_addr_from_int(cls, i):
                return i

            def should_anonymize(self, i):
                return True

        _TINY["c"] = Tiny
    return _TINY["c"]


def check_exh_generic(case, ev):
    """case: {salt, w, B, order}: width-generic base class, all 2^w addresses."""
    salt, w, B = case["salt"], case["w"], case["B"]
    an, exc = guarded(tiny_class(), salt, w, B)
    if exc is not None:
        return core.exc_finding(exc, case, "ctor/")
    vals = list(range(1 << w))
    order = vals if case.get("order", "up") == "up" else vals[::-1]
    img = {}
    for v in order:
        y, exc = guarded(an.anonymize, v)
        if exc is not None:
            return core.exc_finding(exc, case, "anonymize/")
        img[v] = y
    imgs = [img[v] for v in vals]
    ev.bulk(len(vals), len(vals), sample=case, classes={"generic-w%d" % w: len(vals)})
    if sorted(imgs) != vals:
        return Finding("generic/not-a-permutation", "salt=%r w=%d B=%d images=%r" % (salt, w, B, imgs[:40]), case)
    r = _levels_ok(vals, imgs, w)
    if r is not None:
        return Finding("generic/levels", "salt=%r w=%d B=%d depth %d: %s" % (salt, w, B, r[0], r[1]), case)
    if B and any((y ^ v) & ((1 << B) - 1) for v, y in zip(vals, imgs)):
        return Finding("generic/host-bits-changed", "salt=%r w=%d B=%d" % (salt, w, B), case)
    if w <= 7:  # literally all pairs
        for a in vals:
            for b in vals[a + 1 :]:
                if G.cpl(a, b, w) != G.cpl(img[a], img[b], w):
                    return Finding("generic/pair", "salt=%r w=%d B=%d a=%d b=%d" % (salt, w, B, a, b), case)
    return None


def check_bulk(case, ev):
    """case: {fam, cfg, n, start, stride, dense}: thousands of addresses through ONE anonymizer;
    the map prefix_d(x) -> prefix_d(image) must be a well defined injective function at every
    depth d over the whole set (equivalent to the pairwise statement for all loaded pairs)."""
    fam, cfg, n = case["fam"], case["cfg"], case["n"]
    W = 32 if fam == 4 else 128
    an, exc = guarded(G.mk, cfg, fam)
    if exc is not None:
        return core.exc_finding(exc, case, "ctor/")
    mask = (1 << W) - 1
    xs = [(case["start"] + i * (case["stride"] | 1)) & mask for i in range(n // 2)]
    xs += [(case["dense"] + i * 3) & mask for i in range(n - n // 2)]
    ys = []
    for x in xs:
        y, exc = guarded(an.anonymize, x)
        if exc is not None:
            return core.exc_finding(exc, case, "anonymize/")
        ys.append(y)
    ev.bulk(len(xs), len(set(xs)), sample={k: case[k] for k in ("fam", "cfg", "n")}, classes={"bulk-v%d" % fam: len(xs)})
    for d in range(1, W + 1):
        sh = W - d
        fwd, back = {}, {}
        for x, y in zip(xs, ys):
            p, q = x >> sh, y >> sh
            if fwd.setdefault(p, q) != q or back.setdefault(q, p) != p:
                return Finding(
                    "bulk/cpl-not-preserved-within-one-long-run:v%d" % fam,
                    "cfg=%r: among %d addresses through one anonymizer, prefixes of length %d are not mapped one-to-one (address %d -> %d)" % (cfg, n, d, x, y),
                    case,
                )
    return None


def check_text_pairs(case, ev):
    """The pair relation through the TEXT layer: addresses written as tokens (optionally with a /len
    suffix) in lines handled by anonymize_ip_addr or FileAnonymizer.anonymize_io; images are parsed
    back from the output.  Mask-shaped values are left alone by the text layer and are not generated;
    members of preserved networks keep their value (their image is themselves) and take part in the
    relation like any other token.  case: {fam, cfg, toks:[[int, suffix]], via}"""
    import ipaddress

    from netconan.ip_anonymization import anonymize_ip_addr

    fam, cfg, toks = case["fam"], case["cfg"], case["toks"]
    W = 32 if fam == 4 else 128
    if case.get("img_of") is not None and fam == 4:
        # the address whose image is a chosen mask-shaped value, and its last-bit neighbour
        u, exc = guarded(G.mk4, cfg)
        if exc is not None:
            return core.exc_finding(exc, case, "ctor/")
        x = u.deanonymize(case["img_of"])
        toks = [t for t in toks] + [[n, ""] for n in (x, x ^ 1, x ^ 256) if not G.is_mask(n)]
    mk_text = (lambda n: G.v4_canon(n)) if fam == 4 else (lambda n: str(ipaddress.IPv6Address(n)))
    spelled = {i: t[2] for i, t in enumerate(toks) if len(t) > 2}  # another valid spelling of the same address
    toks = [t[:2] for t in toks]
    # usually all tokens on one line; "perline": one token per line (then through the stream API)
    joiner = "\n" if case.get("perline") else " "
    line = joiner.join(spelled.get(i, mk_text(n)) + suf for i, (n, suf) in enumerate(toks))
    frag = case.get("frag")
    if frag:
        # text that looks like an address to the pattern but not to the parser, in front of the tokens
        # (its own words are not address tokens: the oracle below looks at the tokens after it)
        line = frag + " " + line
    if case.get("prelude"):
        # a short-lived anonymizer with OTHER options handles some of the same tokens first and is
        # dropped before the one under test is created (state keyed by object identity or by text
        # would leak into it)
        pre, exc = guarded(G.mk, case["prelude"]["cfg"], fam)
        if exc is not None:
            return core.exc_finding(exc, case, "ctor/")
        sub = " ".join(spelled.get(i, mk_text(n)) + suf for i, (n, suf) in enumerate(toks) if i in case["prelude"]["idx"])
        guarded(anonymize_ip_addr, pre, sub)
        del pre
    if case["via"] == "line":
        an, exc = guarded(G.mk, cfg, fam)
        if exc is not None:
            return core.exc_finding(exc, case, "ctor/")
        out, exc = guarded(lambda: "\n".join(anonymize_ip_addr(an, l) for l in line.split("\n")))
    else:
        fa, exc = guarded(G.file_anonymizer, cfg)
        if exc is not None:
            return core.exc_finding(exc, case, "ctor/")
        out, exc = guarded(core.run_io, fa, line + "\n", bool(case.get("nonl")))
    if exc is not None:
        return core.exc_finding(exc, case, "text/")
    parts = out.split()
    if frag:
        parts = parts[len(frag.split()) :]
    if len(parts) != len(toks):
        return Finding("text/token-count-changed", "%r -> %r" % (line, out), case)
    imgs = []
    for (n, suf), t in zip(toks, parts):
        addr = t[: len(t) - len(suf)] if suf else t
        try:
            imgs.append(int(ipaddress.ip_address(addr)))
        except ValueError:
            return Finding("text/output-token-not-an-address", "%r -> %r" % (line, out), case)
    ev.case(case, len(toks) >= 2, ["text-v%d" % fam, "via-" + case["via"]] + (["non-canonical-spelling"] if spelled else []) + (["one-token-per-line"] if case.get("perline") else []) + (["unterminated-last-line"] if case.get("nonl") and case["via"] != "line" else []) + (["after-short-lived-anonymizer"] if case.get("prelude") else []) + (["with-len-suffix"] if any(sf for _, sf in toks) else []))
    for i in range(len(toks)):
        for j in range(i + 1, len(toks)):
            k, k2 = G.cpl(toks[i][0], toks[j][0], W), G.cpl(imgs[i], imgs[j], W)
            if k != k2:
                return Finding(
                    "text/cpl-not-preserved:v%d%s" % (fam, ":len-suffix" if toks[i][1] or toks[j][1] else ""),
                    "cfg=%r via %s: %r -> %r: tokens %d and %d share %d bits, their images %d" % (cfg, case["via"], line, out.strip(), i, j, k, k2),
                    case,
                )
    return None


REPLAY = {"text": check_text_pairs, "bulk": check_bulk, "bulk_long": check_bulk, "pairs": check_group, "exh_real": check_exh_real, "exh_generic": check_exh_generic}

# ---------------------------------------------------------------- generators


@st.composite
def _group_case(draw):
    fam = draw(st.sampled_from([4, 4, 6]))
    W = 32 if fam == 4 else 128
    cfg = draw(G.config())
    a, b, k = draw(G.pair(W))
    if draw(st.booleans()):
        # start from a "shaped" address (IPv4-mapped, link-local, zero runs, ...; or one close to a
        # preserved prefix) and take a neighbour at a uniformly drawn common-prefix length
        a = draw(G.v6_int) if fam == 6 else draw(G.addr_near(G.effective_prefixes(cfg) or ["0.0.0.0/0"]))
        b = draw(G.neighbour(a, W))
    addrs = [a, b]
    if fam == 4 and draw(st.booleans()):
        # pairs straddling the boundary of a preserved prefix / network
        addrs.append(draw(G.addr_near(G.effective_prefixes(cfg) or ["0.0.0.0/0"])))
    extra = draw(st.integers(0, 3))
    for _ in range(extra):
        base = draw(st.sampled_from(addrs))
        addrs.append(draw(G.neighbour(base, W)))
    B = cfg["B4"] if fam == 4 else cfg["B6"]
    if B and draw(st.booleans()):
        # differ only inside the preserved host bits
        addrs.append(addrs[0] ^ draw(st.integers(1, (1 << B) - 1)) if B else addrs[0])
    pre = []
    if draw(st.integers(0, 3)) == 0:
        pre = [draw(st.one_of(st.sampled_from(addrs), G.neighbour(draw(st.sampled_from(addrs)), W, min_shared=W - 12))) for _ in range(draw(st.integers(1, 3)))]
    return {"fam": fam, "cfg": cfg, "addrs": addrs, "pre": pre}


@st.composite
def _bulk_case(draw, n):
    fam = draw(st.sampled_from([4, 4, 4, 6]))
    W = 32 if fam == 4 else 128
    cfg = draw(G.config())
    if n >= 20000:
        fam, W = 4, 32  # long runs: IPv4 with no preserved host bits fills the memo fastest
    if fam == 4:
        cfg["B4"] = 0 if n >= 20000 else draw(st.sampled_from([0, 0, 8, 4]))
    else:
        cfg["B6"] = draw(st.sampled_from([0, 32]))
    dense = draw(G.addr_near(G.effective_prefixes(cfg) or ["10.0.0.0/8"])) if fam == 4 else draw(G.v6_int)
    return {"fam": fam, "cfg": cfg, "n": n if fam == 4 else n // 6, "start": draw(st.integers(0, (1 << W) - 1)), "stride": draw(st.integers(1 << (W - 14), (1 << W) - 1)), "dense": dense}


def t_bulk(shard, nshards, seed, ev, known, n=2, size=6000):
    # the first examples Hypothesis generates are the simplest ones (empty lists, zero values): skip them
    cases = core.collect_cases(_bulk_case(size), n + 3, seed)[3:]
    return core.enum_drive(cases, check_bulk, ev, known, "bulk")


@st.composite
def _text_case(draw):
    fam = draw(st.sampled_from([4, 4, 6]))
    W = 32 if fam == 4 else 128
    cfg = draw(G.config(networks="maybe"))
    a, b, k = draw(G.pair(W))
    if fam == 4 and cfg.get("networks") and draw(st.booleans()):
        # one address inside / right next to a preserved network (inside it the text layer keeps the address:
        # its image is itself, and the pair relation with every neighbour outside must still hold)
        a = draw(G.addr_near(cfg["networks"]))
        b = draw(G.neighbour(a, W))
    if fam == 6 and draw(st.booleans()):
        # shaped addresses (zero groups, network addresses, ...) whose spellings use '::' in every position
        a = draw(G.v6_int)
        b = draw(G.neighbour(a, W))
    addrs = [a, b] + [draw(G.neighbour(draw(st.sampled_from([a, b])), W)) for _ in range(draw(st.integers(0, 2)))]
    if fam == 6 and draw(st.integers(0, 2)) == 0:
        addrs.append(draw(st.sampled_from(addrs)))  # the same address again (usually spelled differently)
    toks = []
    for n in addrs:
        if fam == 4 and G.is_mask(n):
            continue
        suf = ""
        if draw(st.integers(0, 3)) == 0:
            suf = "/%d" % draw(st.integers(0, W))
        toks.append([n, suf])
        if fam == 6 and draw(st.booleans()):
            toks[-1].append(draw(G.v6_spelling(n, allow_len=False, allow_v4tail=True))[0])
    toks = toks or [[0x01020304 if fam == 4 else 1, ""]]
    prelude = None
    if draw(st.integers(0, 2)) == 0:
        prelude = {"cfg": draw(G.config(networks="never")), "idx": draw(st.lists(st.integers(0, len(toks) - 1), min_size=1, max_size=len(toks), unique=True))}
    from .c05 import MASKS

    img_of = draw(st.sampled_from(MASKS)) if fam == 4 and draw(st.integers(0, 3)) == 0 else None
    return {"fam": fam, "cfg": cfg, "toks": toks, "via": draw(st.sampled_from(["line", "line", "io"])), "prelude": prelude, "img_of": img_of, "nonl": draw(st.integers(0, 3)) == 0, "perline": draw(st.integers(0, 2)) == 0, "frag": draw(st.sampled_from(["fe80:%x", "fe80:::%1", "via fe80:%eth0", "1.2.3.4.5", "12345::1 x"])) if draw(st.integers(0, 5)) == 0 else None}


def t_text(shard, nshards, seed, ev, known, n=500):
    return core.hyp_drive(_text_case(), check_text_pairs, n, seed, ev, known, check_name="text")


def check_text_long(case, ev):
    """One physical line of thousands of IPv4 tokens (far beyond 64 KiB) through anonymize_io: the
    map token -> output token must be one-to-one at every prefix depth.  case: {cfg, n, start, stride}"""
    import ipaddress

    cfg, n = case["cfg"], case["n"]
    xs = []
    for i in range(n):
        x = (case["start"] + i * (case["stride"] | 1)) & G.M32
        if not G.is_mask(x):
            xs.append(x)
    line = " ".join(G.v4_canon(x) for x in xs)
    fa, exc = guarded(G.file_anonymizer, cfg)
    if exc is not None:
        return core.exc_finding(exc, case, "ctor/")
    out, exc = guarded(core.run_io, fa, line + "\n")
    if exc is not None:
        return core.exc_finding(exc, case, "text/")
    parts = out.split()
    ev.bulk(len(xs), len(xs), sample={k: case[k] for k in ("cfg", "n")}, classes={"long-line-tokens": len(xs)})
    if len(parts) != len(xs) or out.count("\n") != 1:
        return Finding("text/long-line-structure-changed", "%d tokens on one line of %d characters became %d tokens on %d lines" % (len(xs), len(line), len(parts), out.count("\n")), case)
    try:
        ys = [int(ipaddress.IPv4Address(t)) for t in parts]
    except ValueError as e:
        return Finding("text/long-line-output-token-not-an-address", str(e), case)
    for d in range(1, 33):
        fwd, back = {}, {}
        for x, y in zip(xs, ys):
            p_, q_ = x >> (32 - d), y >> (32 - d)
            if fwd.setdefault(p_, q_) != q_ or back.setdefault(q_, p_) != p_:
                return Finding("text/long-line-cpl-not-preserved", "cfg=%r: in a line of %d tokens prefixes of length %d are not mapped one-to-one (token %s -> %s)" % (cfg, len(xs), d, G.v4_canon(x), G.v4_canon(y)), case)
    return None


REPLAY["text_long"] = check_text_long


def t_text_long(shard, nshards, seed, ev, known, n=6000):
    cases = [{"cfg": {"salt": "tl%d" % k, "B4": [8, 0][k % 2], "B6": 8, "prefixes": None, "networks": None, "mode": "default"}, "n": n, "start": core.derive("tl", seed, k) & G.M32, "stride": (core.derive("tls", seed, k) & 0xFFFFFF) | 0x10001} for k in range(nshards) if k % nshards == shard]
    return core.enum_drive(cases, check_text_long, ev, known, "text_long")


def check_dir_nosalt(case, ev):
    """One directory run with the salt option left at its default (netconan draws one for the run): the
    images found in ALL output files together must satisfy the pair relation.  case: {fam, files: [[int]]}"""
    import ipaddress
    import os
    import shutil
    import tempfile

    from netconan.anonymize_files import anonymize_files

    fam = case["fam"]
    W = 32 if fam == 4 else 128
    txt = (lambda n: G.v4_canon(n)) if fam == 4 else (lambda n: str(ipaddress.IPv6Address(n)))
    d = tempfile.mkdtemp(prefix="vf-c01d-")
    try:
        for i, addrs in enumerate(case["files"]):
            p_ = os.path.join(d, "in", "d%d" % (i % 2), "f%d.cfg" % i)
            os.makedirs(os.path.dirname(p_), exist_ok=True)
            with open(p_, "w") as fh:
                fh.write("".join("host %s\n" % txt(n) for n in addrs))
        _, exc = guarded(anonymize_files, os.path.join(d, "in"), os.path.join(d, "out"), False, True, preserve_suffix_v4=case["B"], preserve_suffix_v6=case["B"])
        if exc is not None:
            return core.exc_finding(exc, case, "anonymize_files/")
        pairs = []
        for i, addrs in enumerate(case["files"]):
            p_ = os.path.join(d, "out", "d%d" % (i % 2), "f%d.cfg" % i)
            if not os.path.exists(p_):
                return Finding("dir/output-missing", p_, case)
            outs = open(p_).read().split("\n")[:-1]
            if len(outs) != len(addrs):
                return Finding("dir/line-count-changed", "%d -> %d" % (len(addrs), len(outs)), case)
            for n, o in zip(addrs, outs):
                try:
                    pairs.append((i, n, int(ipaddress.ip_address(o.split(" ", 1)[1]))))
                except (ValueError, IndexError):
                    return Finding("dir/output-token-not-an-address", "%r" % o, case)
    finally:
        shutil.rmtree(d, ignore_errors=True)
    ev.case(case, len(case["files"]) >= 2, ["dir-without-salt", "v%d" % fam, "files%d" % len(case["files"])])
    for x in range(len(pairs)):
        for y in range(x + 1, len(pairs)):
            (fi, a, ia), (fj, b, ib) = pairs[x], pairs[y]
            if G.cpl(a, b, W) != G.cpl(ia, ib, W):
                return Finding(
                    "dir/cpl-not-preserved-within-one-saltless-run:%s" % ("same-file" if fi == fj else "across-files"),
                    "%s (file %d) and %s (file %d) share %d bits, their images %s and %s share %d" % (txt(a), fi, txt(b), fj, G.cpl(a, b, W), txt(ia), txt(ib), G.cpl(ia, ib, W)),
                    case,
                )
    return None


REPLAY["dir_nosalt"] = check_dir_nosalt


@st.composite
def _dir_case(draw):
    fam = draw(st.sampled_from([4, 4, 6]))
    W = 32 if fam == 4 else 128
    a = draw(G.u32.filter(lambda x: x >> 24 not in (10,) and not G.is_mask(x)) if fam == 4 else G.v6_int)
    pool = [a]
    for _ in range(draw(st.integers(2, 7))):
        n = draw(G.neighbour(draw(st.sampled_from(pool)), W))
        if fam == 6 or not G.is_mask(n):
            pool.append(n)
    nf = draw(st.integers(1, 4))
    files = [[] for _ in range(nf)]
    for n in pool:
        files[draw(st.integers(0, nf - 1))].append(n)
    if draw(st.booleans()):
        files[-1].append(pool[0])  # the same address in another file
    return {"fam": fam, "files": [f for f in files if f], "B": draw(st.sampled_from([8, 0, 8, 16]))}


def t_dir_nosalt(shard, nshards, seed, ev, known, n=60):
    return core.hyp_drive(_dir_case(), check_dir_nosalt, n, seed, ev, known, check_name="dir_nosalt")


def t_pairs(shard, nshards, seed, ev, known, n=1000):
    return core.hyp_drive(_group_case(), check_group, n, seed, ev, known, check_name="pairs")


_EXH_CFGS = [
    # (prefixes, networks) combinations whose prefixes are short enough to matter for the enumerated part
    (None, None),
    ([], None),
    (["10.0.0.0/8", "10.128.0.0/9", "10.192.0.0/10"], None),
    (None, ["192.168.0.0/16"]),
    (["0.0.0.0/0"], None),
    (["128.0.0.0/1", "64.0.0.0/2", "32.0.0.0/3", "16.0.0.0/4"], ["172.16.0.0/12"]),
]
_EXH_SALTS = ["", "s", "TESTSALT", "_é", "0123456789abcdef"]


def t_exh_real(shard, nshards, seed, ev, known, w=10, ncfg=6):
    import hashlib

    class rnd:  # deterministic bits derived from the seed (pure function of VERIF_SEED)
        n = 0

        @classmethod
        def getrandbits(cls, k):
            cls.n += 1
            return int(hashlib.sha256(("%d/%d/%d" % (seed, shard, cls.n)).encode()).hexdigest(), 16) & ((1 << k) - 1)

    cases = []
    idx = 0
    for pi, (pfx, nets) in enumerate(_EXH_CFGS):
        for si, salt in enumerate(_EXH_SALTS):
            if idx % nshards == shard:
                cfg = {"salt": salt, "B4": 32 - w, "B6": 32, "prefixes": pfx, "networks": nets, "mode": "exh"}
                cases.append({"fam": 4, "cfg": cfg, "w": w, "suffix": rnd.getrandbits(32)})
            idx += 1
    for si, salt in enumerate(_EXH_SALTS[:3]):
        if idx % nshards == shard:
            cfg = {"salt": salt, "B4": 8, "B6": [0, 8, 32][si], "prefixes": None, "networks": None, "mode": "exh"}
            w6 = min(w, 10)
            cases.append({"fam": 6, "cfg": cfg, "w": w6, "suffix": rnd.getrandbits(32), "top": rnd.getrandbits(128 - cfg["B6"] - w6)})
        idx += 1
    cases = cases[:ncfg]
    fs = core.enum_drive(cases, check_exh_real, ev, known, "exh_real")
    ev.exhaustive["real_anonymizer_all_2^w_values(w=%d)_configs" % w] = len(cases)
    return fs


def t_exh_generic(shard, nshards, seed, ev, known, wmax=10):
    cases = []
    idx = 0
    for w in range(4, wmax + 1):
        for B in range(0, w + 1):
            for salt in ["", "s", "é_"] if w <= 8 else ["s"]:
                for order in ("up", "down"):
                    if idx % nshards == shard:
                        cases.append({"salt": salt, "w": w, "B": B, "order": order})
                    idx += 1
    fs = core.enum_drive(cases, check_exh_generic, ev, known, "exh_generic")
    ev.exhaustive["generic_class_all_addresses_(w,B,salt,order)_configs"] = len(cases)
    return fs


def plan(tier):
    q = tier == "quick"
    return [
        Task("pairs", t_pairs, shards=4 if q else 16, n=1500 if q else 40000),
        Task("text", t_text, shards=3 if q else 16, n=600 if q else 20000),
        Task("text_long", t_text_long, shards=2 if q else 6, n=6000 if q else 20000),
        Task("dir_nosalt", t_dir_nosalt, shards=1 if q else 8, n=60 if q else 1500),
        Task("bulk", t_bulk, shards=4 if q else 16, n=2 if q else 10, size=7000 if q else 14000),
        Task("bulk_long", t_bulk, shards=2 if q else 8, n=1 if q else 4, size=30000 if q else 60000),
        Task("exh_real", t_exh_real, shards=6 if q else 16, w=10 if q else 16, ncfg=99),
        Task("exh_generic", t_exh_generic, shards=4 if q else 16, wmax=9 if q else 12),
    ]
