"""Generators and small helpers for the IP properties (C01-C06, C17).

Configurations are plain JSON dicts so that cases can be written to replay files:
    {"salt": str, "B4": int, "B6": int, "prefixes": None | [cidr], "networks": None | [cidr]}
"""

import ipaddress

from hypothesis import strategies as st

M32 = (1 << 32) - 1
M128 = (1 << 128) - 1

DEFAULT_PREFIXES = ["0.0.0.0/1", "128.0.0.0/2", "192.0.0.0/3", "224.0.0.0/4", "10.0.0.0/8", "172.16.0.0/12", "192.168.0.0/16"]
RFC1918 = ["10.0.0.0/8", "172.16.0.0/12", "192.168.0.0/16"]

# ---------------------------------------------------------------- salts

salts = st.one_of(
    st.sampled_from(["", "s", "salt", "_", " ", "é", "\x00", "TESTSALT", "0", "\U0001f600"]),
    st.text(alphabet="abcXYZ019_-", min_size=1, max_size=12),
    st.text(max_size=10),  # any Unicode text that can be encoded as UTF-8 (no lone surrogates)
)

hostbits = st.one_of(st.sampled_from([0, 8, 32, 1, 31, 16, 24]), st.integers(0, 32))
# library callers may keep up to the whole IPv6 address (the command line stops at 32 for both families)
hostbits6 = st.one_of(hostbits, hostbits, st.sampled_from([64, 128, 127, 48, 96, 33]), st.integers(0, 128))

# ---------------------------------------------------------------- networks


def net_of(value, length, width=32):
    if length == 0:
        return 0
    return (value >> (width - length)) << (width - length)


def cidr_str(value, length):
    return "%s/%d" % (ipaddress.IPv4Address(net_of(value, length)), length)


def parse_cidr(s):
    n = ipaddress.ip_network(s)
    return int(n.network_address), n.prefixlen


def in_net(x, cidr):
    v, l = parse_cidr(cidr)
    return net_of(x, l) == v


# Hypothesis integers are biased towards small magnitudes; addresses should mostly be spread over
# the whole space, so most draws come from uniformly drawn bytes.
u32 = st.one_of(
    st.binary(min_size=4, max_size=4).map(lambda b: int.from_bytes(b, "big")),
    st.randoms(use_true_random=False).map(lambda r: r.getrandbits(32)),
    st.integers(0, M32),
)
u128 = st.one_of(
    st.binary(min_size=16, max_size=16).map(lambda b: int.from_bytes(b, "big")),
    st.randoms(use_true_random=False).map(lambda r: r.getrandbits(128)),
    st.integers(0, M128),
)

_lengths = st.one_of(st.integers(0, 32), st.sampled_from([0, 1, 8, 12, 16, 24, 30, 31, 32]))


@st.composite
def cidr(draw, lengths=_lengths):
    return cidr_str(draw(u32), draw(lengths))


@st.composite
def cidr_list(draw, min_size=1, max_size=4, nested=False, lengths=_lengths):
    out = [draw(cidr(lengths))]
    n = draw(st.integers(min_size, max_size))
    while len(out) < n:
        if nested or draw(st.booleans()):
            v, l = parse_cidr(draw(st.sampled_from(out)))
            if draw(st.booleans()) and l < 32:  # extend by a few bits
                l2 = min(32, l + draw(st.integers(1, 6)))
                v2 = v | (draw(u32) & ((1 << (32 - l)) - 1))
                out.append(cidr_str(v2, l2))
            else:  # truncate, or sibling (last prefix bit flipped)
                if l > 0 and draw(st.booleans()):
                    out.append(cidr_str(v ^ (1 << (32 - l)), l))
                else:
                    out.append(cidr_str(v, draw(st.integers(0, l))))
        else:
            out.append(draw(cidr(lengths)))
    return out


@st.composite
def config(draw, networks="maybe", modes=("default", "empty", "list", "nested")):
    mode = draw(st.sampled_from(modes))
    if mode == "default":
        prefixes = None
    elif mode == "empty":
        prefixes = []
    else:
        prefixes = draw(cidr_list(nested=(mode == "nested")))
    nets = None
    if networks == "always" or (networks == "maybe" and draw(st.integers(0, 2)) == 0):
        nets = draw(
            st.one_of(
                cidr_list(max_size=3, lengths=st.one_of(st.integers(4, 32), st.sampled_from([32, 24, 8, 30]))),
                st.just(list(RFC1918)),
            )
        )
    return {"salt": draw(salts), "B4": draw(hostbits), "B6": draw(hostbits6), "prefixes": prefixes, "networks": nets, "mode": mode}


def effective_prefixes(cfg):
    p = list(DEFAULT_PREFIXES) if cfg["prefixes"] is None else list(cfg["prefixes"])
    if cfg.get("networks"):
        p += list(cfg["networks"])
    return p


def mk4(cfg):
    from netconan.ip_anonymization import IpAnonymizer

    return IpAnonymizer(
        cfg["salt"],
        None if cfg["prefixes"] is None else list(cfg["prefixes"]),
        None if cfg.get("networks") is None else list(cfg["networks"]),
        preserve_suffix=cfg["B4"],
    )


def mk6(cfg):
    from netconan.ip_anonymization import IpV6Anonymizer

    return IpV6Anonymizer(cfg["salt"], preserve_suffix=cfg["B6"])


def mk(cfg, fam):
    return mk4(cfg) if fam == 4 else mk6(cfg)


def file_anonymizer(cfg, undo=False, **kw):
    from netconan.anonymize_files import FileAnonymizer

    return FileAnonymizer(
        anon_pwd=kw.pop("anon_pwd", False),
        anon_ip=not undo,
        undo_ip_anon=undo,
        salt=cfg["salt"],
        preserve_prefixes=None if cfg["prefixes"] is None else list(cfg["prefixes"]),
        preserve_networks=None if cfg.get("networks") is None else list(cfg["networks"]),
        preserve_suffix_v4=cfg["B4"],
        preserve_suffix_v6=cfg["B6"],
        **kw,
    )


# ---------------------------------------------------------------- addresses and pairs


def cpl(a, b, width):
    """Number of equal leading bits."""
    return width - (a ^ b).bit_length()


def is_mask(n):
    """Reference mask predicate: ones then zeros, or zeros then ones (32 bits)."""
    b = format(n, "032b")
    return b.lstrip("1").strip("0") == "" or b.lstrip("0").strip("1") == ""


@st.composite
def pair(draw, width):
    """(a, b, k) with common-prefix length exactly k, k uniform in 0..width."""
    k = draw(st.integers(0, width))
    a = draw(st.integers(0, (1 << width) - 1))
    if k == width:
        return a, a, k
    low = width - k - 1  # number of free bits below the flipped one
    b = (a ^ (1 << low))
    if low:
        b = ((b >> low) << low) | draw(st.integers(0, (1 << low) - 1))
    return a, b, k


@st.composite
def neighbour(draw, x, width, min_shared=0):
    """Value sharing exactly k >= min_shared leading bits with x (k drawn), or x itself."""
    k = draw(st.integers(min_shared, width))
    if k == width:
        return x
    low = width - k - 1
    y = x ^ (1 << low)
    if low:
        y = ((y >> low) << low) | draw(st.integers(0, (1 << low) - 1))
    return y


@st.composite
def addr_near(draw, cidrs, width=32):
    """IPv4 address inside / on the edge of / just outside one of the given networks."""
    v, l = parse_cidr(draw(st.sampled_from(cidrs)))
    kind = draw(st.sampled_from(["in", "first", "last", "out"]))
    free = (1 << (32 - l)) - 1
    if kind == "first":
        return v
    if kind == "last":
        return v | free
    x = v | (draw(u32) & free)
    if kind == "in" or l == 0:
        return x
    # flip one prefix bit, biased towards the last ones (close to the boundary)
    pos = draw(st.one_of(st.integers(max(0, l - 4), l - 1), st.integers(0, l - 1)))
    return x ^ (1 << (31 - pos))


# ---------------------------------------------------------------- spellings (harness encoder)


def v4_canon(n):
    return "%d.%d.%d.%d" % (n >> 24, (n >> 16) & 255, (n >> 8) & 255, n & 255)


@st.composite
def v4_spelling(draw, n, allow_len=True):
    octs = [n >> 24, (n >> 16) & 255, (n >> 8) & 255, n & 255]
    style = draw(st.sampled_from(["canon", "canon", "zeros", "zeros3"]))
    parts = []
    for o in octs:
        if style == "canon":
            parts.append(str(o))
        elif style == "zeros3":
            parts.append("%03d" % o)
        else:
            parts.append("0" * draw(st.integers(0, 2)) + str(o))
    s = ".".join(parts)
    if allow_len and draw(st.integers(0, 3)) == 0:
        s += "/%d" % draw(st.integers(0, 32))
    return s


def v6_groups(n):
    return [(n >> (16 * (7 - i))) & 0xFFFF for i in range(8)]


@st.composite
def v6_spelling(draw, n, allow_len=True, allow_v4tail=True):
    """A valid textual form of the IPv6 integer n, produced by this encoder (not by ipaddress)."""
    g = v6_groups(n)
    case = draw(st.sampled_from(["lower", "upper", "mixed"]))
    pad = draw(st.sampled_from(["none", "none", "full", "some"]))

    def grp(x):
        s = "%x" % x
        if pad == "full":
            s = "%04x" % x
        elif pad == "some":
            s = "0" * draw(st.integers(0, 4 - len(s))) + s
        if case == "upper":
            s = s.upper()
        elif case == "mixed":
            s = "".join(c.upper() if draw(st.booleans()) else c for c in s)
        return s

    tail = None
    ngroups = 8
    if allow_v4tail and draw(st.integers(0, 3)) == 0:
        tail = "%d.%d.%d.%d" % (g[6] >> 8, g[6] & 255, g[7] >> 8, g[7] & 255)
        ngroups = 6
    head = g[:ngroups]
    # choose a run of zero groups to compress with '::' (any run, not only the longest), or none
    runs = []
    i = 0
    while i < ngroups:
        if head[i] == 0:
            j = i
            while j < ngroups and head[j] == 0:
                j += 1
            for a in range(i, j):
                for b in range(a + 1, j + 1):
                    runs.append((a, b))
            i = j
        else:
            i += 1
    kind = "full"
    if runs and draw(st.integers(0, 3)) != 0:
        a, b = draw(st.sampled_from(runs))
        left = ":".join(grp(x) for x in head[:a])
        right = ":".join(grp(x) for x in head[b:])
        if tail is not None:
            right = (right + ":" if right else "") + tail
        s = left + "::" + right
        kind = "compressed"
    else:
        s = ":".join(grp(x) for x in head)
        if tail is not None:
            s += ":" + tail
    if tail is not None:
        kind += "+v4tail"
    if allow_len and draw(st.integers(0, 3)) == 0:
        s += "/%d" % draw(st.integers(0, 128))
    assert int(ipaddress.IPv6Address(s.split("/")[0])) == n, (s, n)
    return s, kind


# v6 integers with interesting shapes (zero runs so that '::' forms exist, v4-mapped, link local)
v6_int = st.one_of(
    u128,
    st.builds(lambda hi, lo: (hi << 64) | lo, st.integers(0, (1 << 64) - 1), st.integers(0, 0xFFFF)),
    st.builds(lambda v: (0xFFFF << 32) | v, u32),
    st.builds(lambda v: v, u32),
    st.builds(lambda lo: (0xFE80 << 112) | lo, st.integers(0, (1 << 64) - 1)),
    # network addresses (low 16..96 bits zero: '2001:db8:1::'), and addresses with exactly one zero group
    st.builds(lambda v, k: (v >> k) << k, u128, st.sampled_from([16, 32, 32, 48, 64, 80, 96])),
    st.builds(lambda v, i: (v | (0x0001000100010001000100010001 << 0) | (1 << 112)) & ~(0xFFFF << (16 * i)), u128, st.sampled_from([0, 7, 7, 0, 3])),
    st.lists(st.sampled_from([0, 0, 1, 0xFFFF, 0xA, 0x2001, 0xDB8]), min_size=8, max_size=8).map(
        lambda gs: sum(x << (16 * (7 - i)) for i, x in enumerate(gs))
    ),
)


# ---------------------------------------------------------------- lines made of standalone tokens

# separators: never empty, never containing [A-Za-z0-9.:], so every token stands alone
SEPARATORS = [" ", "  ", "\t", ", ", " - ", " (", ") ", ";", " | ", "=", " \"", "\" ", "[", "] ", "{", "} ", "_", "~", "@", "#", "é", " ", ",", "+", "<", ">", "!", "?", "'", "*", "%", "&", "^", "\\", "$", "\x0c", "\x0b", "\x1c", "\x85", "\u2028", "\u0664", "\u0968", "\uff17"]
WORDS = ["caf\u00e9", "\u00c5re", "\u00e0", "na\u00efve", "interface", "ip", "address", "permit", "host", "eq", "www", "mtu", "1500", "Gi0/1", "description", "neighbor", "remote-as", "route-map", "vlan10", "x"]
NEAR_MISSES = ["1.2.3", "1.2.3.4.5", "256.1.1.1", "1.2.3.999", "1.2.3.4a", "a1.2.3.4", "aa:bb:cc:dd:ee:ff", "12:34", "1:2:3:4:5:6:7:8:9", "1::2::3", "12345::1", "g::1", "1.2.3.", ".1.2.3.4", "00:11:22:33:44:55", "0011.2233.4455",
               # link-local look-alikes that the address pattern matches and the address parser refuses
               "fe80:%x", "fe80:::%1", "fe80:%eth0", "fe80::1::2%ge0"]


@st.composite
def token_line(draw, fams=(4, 6), cfg=None, max_tokens=5, allow_v4tail=False, allow_len=True, special4=None, min_addr=1, pool=None):
    """Returns {"segs": [...], "line": str}.  segs alternate separators and tokens:
    {"t": "sep"|"v4"|"v6"|"word"|"near", "s": text, "n": int (addresses only), "kind": spelling kind}"""
    segs = [{"t": "sep", "s": draw(st.sampled_from(["", "", " ", "  ", "\t"] + SEPARATORS[:12]))}]
    ntok = draw(st.integers(min_addr, max_tokens))
    addr_positions = set(draw(st.lists(st.integers(0, ntok - 1), min_size=min_addr, max_size=ntok)))
    seen = []
    for i in range(ntok):
        if i in addr_positions:
            fam = draw(st.sampled_from(fams))
            if seen and draw(st.integers(0, 4)) == 0:
                fam, n = draw(st.sampled_from(seen))  # same address again, usually spelled differently
            elif pool and draw(st.booleans()):
                fam, n = draw(st.sampled_from(pool))  # (family, int) shared between lines / files
            elif fam == 4:
                gens = [u32]
                if cfg is not None and cfg.get("networks"):
                    gens.append(addr_near(cfg["networks"]))
                if cfg is not None and effective_prefixes(cfg):
                    gens.append(addr_near(effective_prefixes(cfg)))
                if special4 is not None:
                    gens.append(special4)
                n = draw(st.one_of(*gens))
            else:
                n = draw(v6_int)
            seen.append((fam, n))
            if fam == 4:
                s = draw(v4_spelling(n, allow_len=allow_len))
                segs.append({"t": "v4", "s": s, "n": n, "kind": "canon" if s == v4_canon(n) else "noncanon"})
            else:
                s, kind = draw(v6_spelling(n, allow_len=allow_len, allow_v4tail=allow_v4tail))
                segs.append({"t": "v6", "s": s, "n": n, "kind": kind})
        else:
            if draw(st.integers(0, 2)) == 0:
                segs.append({"t": "near", "s": draw(st.sampled_from(NEAR_MISSES))})
            else:
                segs.append({"t": "word", "s": draw(st.sampled_from(WORDS))})
        last = i == ntok - 1
        segs.append({"t": "sep", "s": draw(st.sampled_from(["", "", " ", ";", ",", " !"] if last else SEPARATORS))})
    return {"segs": segs, "line": "".join(x["s"] for x in segs)}


def split_len(spelled):
    """('1.2.3.4', '/24') or (addr, '')."""
    if "/" in spelled:
        i = spelled.index("/")
        return spelled[:i], spelled[i:]
    return spelled, ""
