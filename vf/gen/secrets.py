"""Secret values by format class and the table of recognised line forms (C07-C09, C12, C14, C15).

The table is the harness's own encoding of "recognised password / key / hash / community line
form", written by reading netconan/default_pwd_regexes.py, the extra and AWS patterns in
sensitive_item_removal.py, and the ~130 line templates of the test-suite.  It never calls
netconan to decide what a secret is.
"""

import re

from hypothesis import strategies as st

from ..ref import juniper9 as J
from ..ref import type7 as T7

SCRUB = "! Sensitive line SCRUBBED by netconan"

# ---------------------------------------------------------------- secret values by class

CRYPT64 = "./0123456789ABCDEFGHIJKLMNOPQRSTUVWXYZabcdefghijklmnopqrstuvwxyz"
# printable, non-space ASCII without quote / bracket / terminator characters and without '$'
TEXT_MID = "ABCDEFGHIJKLMNOPQRSTUVWXYZabcdefghijklmnopqrstuvwxyz0123456789!#%&()*+-./:<=>?@^_|~\\"
TEXT_END = "ABCDEFGHIJKLMNOPQRSTUVWXYZabcdefghijklmnopqrstuvwxyz0123456789!#%*+-@^_~"
NONHEX_LETTERS = "ghijklmnopqrstuvwxyzGHIJKLMNOPQRSTUVWXYZ"

_TYPE7_SHAPE = re.compile(r"^[01][0-9]([0-9a-fA-F]{2})+$")


def _reserved():
    from .. import core

    return core.builtin_reserved()


def classify(v):
    """Set of format classes the harness assigns to a value (multi-membership is explicit)."""
    c = set()
    if v.startswith("$9$") and len(v) > 3:
        c.add("j9")
    if v.startswith("$6$") and len(v) > 3:
        c.add("sha512")
    if re.match(r"^\$1\$[^$\s]*\$\S+$", v):
        c.add("md5")
    if v.isascii() and v.isdigit():
        c.add("numeric")
    if re.fullmatch(r"[0-9a-fA-F]+", v):
        c.add("hex")
    if _TYPE7_SHAPE.match(v):
        c.add("type7")
    if not c:
        c.add("text")
    return c


def chars(alphabet, min_size=0, max_size=10):
    """Strings over an alphabet, built from sampled characters (plain st.text with differing
    alphabets at the same position of a composite trips the shrinker of this Hypothesis version)."""
    return st.lists(st.sampled_from(alphabet), min_size=min_size, max_size=max_size).map("".join)


@st.composite
def text_value(draw, min_size=3, max_size=16, exact=None, alphabet_mid=TEXT_MID):
    if exact is None and alphabet_mid is TEXT_MID and draw(st.integers(0, 11)) == 0:
        # shapes that a sloppy classifier could take for a number / hex string / reserved word
        v = draw(st.sampled_from(["+1f", "-42", "0x1F", "0Xab", "1_000", "dead_beef", "+12", "12.5", "1_5", "ab_cd", "FF_FF", "-ff"]))
        if draw(st.booleans()):
            words = sorted(w for w in _reserved() if w.isalpha() and len(w) >= 4)
            w = words[draw(st.integers(0, len(words) - 1))]
            v = draw(st.sampled_from([w.capitalize(), w.upper(), w[0].upper() + w[1:]]))
        if v not in _reserved() and len(v) >= min_size - 1 and classify(v) == {"text"}:
            return v
    n = exact if exact is not None else draw(st.integers(min_size, max_size))
    mid = "".join(draw(st.lists(st.sampled_from(alphabet_mid), min_size=max(n - 2, 0), max_size=max(n - 2, 0))))
    a = draw(st.sampled_from(TEXT_END))
    b = draw(st.sampled_from(TEXT_END)) if n >= 2 else ""
    v = (a + mid + b)[:n]
    # at least one letter outside a-f so that the value is neither hex nor numeric
    if not any(ch in NONHEX_LETTERS for ch in v):
        k = draw(st.integers(0, len(v) - 1))
        v = v[:k] + draw(st.sampled_from(NONHEX_LETTERS)) + v[k + 1 :]
    if v in _reserved() or v.lower() in ("peeras",):
        v = v + draw(st.sampled_from(NONHEX_LETTERS))
    if exact is None and alphabet_mid is TEXT_MID and draw(st.integers(0, 11)) == 0:
        # an opening bracket at the end / a closing one at the start is part of the secret, not enclosing text
        v = draw(st.sampled_from([v + "{", v + "[", "]" + v, "}" + v, v + "[{"]))
    return v


@st.composite
def numeric_value(draw):
    v = draw(chars("0123456789", 2, 12))
    if v in _reserved():
        v += "7"
    return v


@st.composite
def hex_value(draw):
    v = draw(chars("0123456789abcdefABCDEF", 2, 20))
    if draw(st.integers(0, 7)) == 0:
        k = draw(st.sampled_from([32, 40, 64, 16, 48]))  # standard key sizes
        v = "".join(draw(st.lists(st.sampled_from("0123456789abcdef"), min_size=k, max_size=k)))
    if not any(c in "abcdefABCDEF" for c in v):
        v += draw(st.sampled_from("abcdefABCDEF"))
    if _TYPE7_SHAPE.match(v):
        # odd number of characters can never be type-7 shaped
        v = (v + "a") if len(v) % 2 == 0 else v
        if _TYPE7_SHAPE.match(v):
            v = "f" + v + ("" if len(v) % 2 else "a")
    if v in _reserved():
        v += "ee"
    return v


@st.composite
def type7_value(draw):
    plain = draw(chars(TEXT_END + " ", 1, 14))
    salt = draw(st.integers(0, 15))
    v = T7.encode(plain, salt)
    while v.isdigit():  # all-digit strings are numeric secrets, not type 7
        plain += draw(st.sampled_from(TEXT_END))
        v = T7.encode(plain, salt)
    if draw(st.booleans()):
        v = v.lower() if draw(st.booleans()) else v
    return v


@st.composite
def md5_value(draw, salt_len=None):
    n = salt_len if salt_len is not None else draw(st.integers(1, 8))
    salt = "".join(draw(st.lists(st.sampled_from(CRYPT64), min_size=n, max_size=n)))
    digest = "".join(draw(st.lists(st.sampled_from(CRYPT64), min_size=22, max_size=22)))
    if draw(st.integers(0, 7)) == 0:
        # still of the $1$ class for netconan ($1$<non-blank>$<non-blank>): a further '$' inside the body
        # (not right after the first character: '$1$ab$9$...' would contain a second hash-shaped token)
        k = draw(st.integers(2, 20))
        digest = digest[:k] + "$" + digest[k + 1 :]
    return "$1$" + salt + "$" + digest


@st.composite
def sha512_value(draw):
    salt = "".join(draw(st.lists(st.sampled_from(CRYPT64), min_size=16, max_size=16)))
    digest = "".join(draw(st.lists(st.sampled_from(CRYPT64), min_size=86, max_size=86)))
    rounds = "rounds=%d$" % draw(st.sampled_from([5000, 656000, 1000, 999999999])) if draw(st.integers(0, 4)) == 0 else ""
    return "$6$" + rounds + salt + "$" + digest


@st.composite
def j9_value(draw, plain=None, damaged=None):
    if plain is None:
        plain = draw(chars(TEXT_END + ".:/", 1, 14))
    sc = draw(st.sampled_from(J.ALPHABET))
    n = J.filler_len(sc)
    fill = "".join(draw(st.lists(st.sampled_from(J.ALPHABET), min_size=n, max_size=n)))
    v = J.encode(plain, sc, fill)
    if damaged is None:
        damaged = draw(st.integers(0, 9)) == 0
    if damaged and len(v) > 6:
        # a $9$-shaped secret that the Junos decoder refuses (cut inside its last group, or one character
        # outside the alphabet): still a secret of the $9$ class for netconan, keyed by its own text
        if draw(st.booleans()):
            v = v[:-1]
        else:
            k = draw(st.integers(5, len(v) - 1))
            v = v[:k] + draw(st.sampled_from("_+=")) + v[k + 1 :]
        try:
            J.decode(v)
            v = v[:-1] + "_"  # (cutting one character can leave a well-formed shorter string)
        except ValueError:
            pass
    return v


CLASSES = ["text", "numeric", "hex", "type7", "md5", "sha512", "j9"]


def value_of(cls, **kw):
    return {
        "text": text_value,
        "numeric": numeric_value,
        "hex": hex_value,
        "type7": type7_value,
        "md5": md5_value,
        "sha512": sha512_value,
        "j9": j9_value,
    }[cls](**kw)


# ---------------------------------------------------------------- line forms


class Form:
    def __init__(self, fid, heads, trails=("",), mode="pos", classes=None, text_kw=None, reject=None, enclose=True, slots=1):
        self.id = fid
        self.heads = heads
        self.trails = list(trails)
        self.mode = mode  # "pos": the slot holds a pseudonym afterwards; "scrub": line scrubbed from the first keyword on
        self.classes = list(classes) if classes else list(CLASSES)
        self.text_kw = text_kw or {}
        self.reject = reject
        self.enclose = enclose  # the captured value may carry quotes / brackets / terminators
        self.slots = slots


_COMM_IGNORED = re.compile(r"^(\d+|(peeras|\$\w+|\d+):(peeras|\$\w+|\d+)|\(.*\)|gshut|internet|local-AS|no-advertise|no-export|none)$")

NO_COLON = TEXT_MID.replace(":", "")

FORMS = [
    Form("set-password", ["set password {}", "set password ENC {}", "set pksecret {}", "set pksecret ENC {}"]),
    Form("password", ["password {}", "passwd {}", "password 7 {}", "password 0 {}", "enable password level 12 {}", "enable password level 3 5 {}", "enable password 7 {}", "neighbor 1.2.3.4 password {}", " neighbor PEERS password 7 {}", "vpdn username someone password {}", "wlccp ap username someone password 7 {}"], trails=["", " foo", " level-2"]),
    Form("isis-password", ["isis password {}"], trails=["", " level-1", " level-2"]),
    Form("username", trails=["", "", " role network-admin", " privilege 15"], heads=["username Someone password {}", "username Someone password 0 {}", "username Someone view Someview password 7 {}", "username Someone secret {}", "username Someone secret 5 {}", "username noc secret sha512 {}", "username Someone privilege 15 secret 5 {}"]),
    Form("secret", ["enable secret {}", "enable secret 5 {}", "secret {}", "secret 0 {}", "enable secret level 15 5 {}", "enable secret level 3 {}"]),
    Form("ip-ftp", ["ip ftp password {}", "ip ftp password 7 {}"], trails=["", " ! set 2024-01-01"]),
    Form("ospf-auth-key", [" ip ospf authentication-key {}", " ip ospf authentication-key 0 {}"]),
    Form("ospf-md-key", [" ip ospf message-digest-key 1 md5 {}", " ip ospf message-digest-key 124 md5 7 {}"]),
    Form("auth-text", ["   vrrp 2 authentication text {}", "  authentication text {}"]),
    Form("domain-password", ["domain-password {}", "area-password {}"], trails=["", " authenticate snp validate", " authenticate snp send-only"]),
    Form("standby", ["standby authentication {}", "standby 1 authentication {}", "standby authentication text {}", "standby 12 authentication md5 key-string {}", "standby authentication md5 key-string 7 {}"], trails=["", " timeout 123"]),
    Form("l2tp", ["l2tp tunnel password {}", "l2tp tunnel password 0 {}", "l2tp tunnel Foo password 7 {}"]),
    Form("digest", ["digest secret {}", "digest secret 0 {}"], trails=["", " hash MD5"]),
    Form("ppp-hostname", ["ppp chap hostname {}", "ppp pap sent-username x hostname {}"]),
    Form("ppp-password", ["ppp chap password {}", "ppp chap password 0 {}", "ppp chap password 7 {}"]),
    Form("psk-addr", ["pre-shared-key address 10.0.0.1 key {}", "pre-shared-key address 10.0.0.1 key 6 {}", "pre-shared-key address ipv6 ::1/128 key 6 {}", "pre-shared-key hostname example.com key 6 {}"]),
    Form("ikev2-auth", ["ikev2 local-authentication pre-shared-key {}", "remote-authentication pre-shared-key {}", "ikev2 remote-authentication pre-shared-key {}"]),
    Form("psk", ["pre-shared-key {}", "pre-shared-key 0 {}", "pre-shared-key local 0 {}", "pre-shared-key remote hex {}", "pre-shared-key remote 6 {}", "pre-shared-key ascii-text {}", "pre-shared-key hexadecimal {}", "ikev1 pre-shared-key {}"]),
    Form("tacacs-key", ["tacacs-server host 1.1.1.1 key {}", "radius-server host 1.1.1.1 key 0 {}", "tacacs-server key 7 {}", "radius-server key {}"], trails=["", "", " port 49 timeout 5", " authentication accounting", " retransmit 3"]),
    Form("key", [" key {}", " key 0 {}", " key 7 {}", "key hexadecimal {}", "failover key {}"]),
    Form("ntp", ["ntp authentication-key 4294967295 md5 {}", "ntp authentication-key 1 md5 {}"], trails=["", " 1", " 7"]),
    Form("syscon", ["syscon password {}", "syscon address 1.1.1.1 {}"]),
    Form("snmp-user-auth", ["snmp-server user Someone Somegroup remote Crap v3 auth md5 {}", "snmp-server user Someone Somegroup v3 auth sha {}", "snmp-server user Someone Somegroup v3 encrypted auth sha {}"]),
    Form("snmp-user-auth-priv", ["snmp-server user Someone Somegroup v3 auth sha {} priv {}", "snmp-server user Someone Somegroup auth md5 {} priv 3des {}", "snmp-server user Someone Somegroup auth md5 {} priv aes 128 {}", "snmp-server user Someone Somegroup auth md5 {} priv des {}"], trails=["", " something"], slots=2),
    Form("isakmp", ["crypto isakmp key {}", "crypto isakmp key 6 {}", "isakmp key {}"], trails=[" address 1.1.1.1 255.255.255.0", " hostname Something", ""]),
    Form("session-key-ah", ["set session-key inbound ah 4294967295 {}", "set session-key outbound ah 256 {}"]),
    Form("session-key-esp", ["set session-key outbound esp 256 authenticator {}", "set session-key inbound esp 256 cipher {}"]),
    Form("session-key-esp2", ["set session-key outbound esp 256 cipher {} authenticator {}"], slots=2),
    Form("auth-key-junos", ["authentication-key {}", "hello-authentication-key {}", 'authentication-key "{}"'], trails=["", ";"], enclose=False),
    Form("snmp-community", ["snmp-server community {}", "snmp-server community 0 {}", "snmp-server community 8 {}", "snmp-server vrf x community {}"], trails=["", " ro 1", " RW 2", " Something"]),
    Form("snmp-host", ["snmp-server host 1.1.1.1 {}", "snmp-server host 1.1.1.1 vrf Something informs {}", "snmp-server host 1.1.1.1 informs version 1 {}", "snmp-server host 1.1.1.1 traps version 2c {}", "snmp-server host 1.1.1.1 informs version 3 auth {}", "snmp-server host 1.1.1.1 traps version 3 noauth {}", "snmp-server host 1.1.1.1 informs version 3 priv {}", "snmp-server host 1.1.1.1 version 2c {}"], trails=["", " config", " ipsec", " vrrp", " memory"]),
    Form("junos-snmp", ["set snmp community {}", "set snmp trap-group {}", "snmp community {}"], trails=["", " authorization read-only", " otherstuff"], enclose=False),
    Form("key-quoted", ['set system license keys key "{}"'], enclose=False),
    Form("key-hash", ["key-hash sha256 {}"]),
    Form("set-community", ["set community {}"], trails=["", " trailing text"], classes=["text", "hex", "type7", "md5", "sha512", "j9"], reject=lambda v: bool(_COMM_IGNORED.match(v))),
    Form("community-map", ["snmp-server mib community-map {}:100 context public1", "snmp-server mib community-map {}"], text_kw={"alphabet_mid": NO_COLON}, classes=["text", "numeric", "hex", "type7", "md5", "sha512", "j9"], enclose=False),
    Form("snmp-community-extra", ["rf-switch snmp-community {}"]),
    Form("catchall-9", ['set foo bar "{}"', "foo {}", "set interfaces ge-0/0/0 unit 0 description {}"], trails=["", ";"], classes=["j9"], enclose=False),
    # the same form twice on one physical line (compact one-line exports, Junos statements written inline)
    Form("aws-json-twice", ['{"VpnConnections": [{"PreSharedKey": "{}", "TunnelInsideCidr": "169.254.44.0/30"}, {"PreSharedKey": "{}", "TunnelInsideCidr": "169.254.45.0/30"}]}'], classes=["text"], text_kw={"exact": 32}, enclose=False, slots=2),
    Form("aws-xml-twice", ["<ipsec_tunnel><pre_shared_key>{}</pre_shared_key></ipsec_tunnel><ipsec_tunnel><pre_shared_key>{}</pre_shared_key></ipsec_tunnel>"], classes=["text"], text_kw={"exact": 32}, enclose=False, slots=2),
    Form("auth-key-junos-twice", ["level 1 { authentication-key {}; } level 2 { authentication-key {}; }"], enclose=False, slots=2),
    Form("catchall-9-twice", ["old {} new {}", 'set foo "{}" bar "{}"'], classes=["j9"], enclose=False, slots=2),
    Form("catchall-1-twice", ["old {} new {}"], classes=["md5"], enclose=False, slots=2),
    Form("catchall-1", ["my hash is {}", 'set system login user someone authenitcation "{}"'], classes=["md5"], enclose=False),
    Form("aws-xml", ["<pre_shared_key>{}</pre_shared_key>", "      <pre_shared_key>{}</pre_shared_key>"], classes=["text"], text_kw={"exact": 32}, enclose=False),
    Form("aws-json", ['"PreSharedKey": "{}",', '        "PreSharedKey": "{}"', '{"TunnelOptions": [{"OutsideIpAddress": "203.0.113.7", "PreSharedKey": "{}"'], trails=["", "", ', "TunnelInsideCidr": "169.254.44.0/30"}', ', "Phase1LifetimeSeconds": 28800, "IkeVersions": [{"Value": "ikev2"}]}]}'], classes=["text"], text_kw={"exact": 32}, enclose=False),
    # whole-line scrub forms (secret group index None)
    Form("encrypted-password", ['set system root-authentication encrypted-password "{}"', 'set system login user admin authentication encrypted-password "{}"', "encrypted-password {}"], trails=["", ";"], mode="scrub", enclose=False),
    Form("cable-shared-secret", ["cable shared-secret {}", "cable shared-secret 7 {}"], mode="scrub", enclose=False),
    Form("wpa-psk", ["wpa-psk ascii {}", "wpa-psk ascii 7 {}"], mode="scrub", enclose=False),
    Form("ldap", ["ldap-login-password {}"], mode="scrub", enclose=False),
    Form("key-string", ["key-string {}", "key-string 7 {}"], mode="scrub", enclose=False),
    Form("md-key-enc", ["message-digest-key 1 md5 7 {}", "message-digest-key 1 md5 encrypted {}"], mode="scrub", enclose=False),
    Form("junos-secret", ["set system radius-server 1.2.3.4 secret {}", "simple-password {}", 'set access profile x simple-password "{}"'], trails=["", ";"], mode="either", enclose=False),
    Form("junos-ssh", ['set system login user x authentication ssh-rsa "{}"', 'ssh-dsa "{}"'], trails=["", ";"], mode="scrub", enclose=False),
    Form("junos-md5-key", ["set protocols foo md5 1 key {}", "md5 1 key {}"], trails=["", ";"], mode="either", enclose=False),
    Form("junos-psk", ['set security ike policy p pre-shared-key ascii-text "{}"', "pre-shared-key hexadecimal {}"], trails=["", ";"], mode="either", enclose=False),
]
FORM_BY_ID = {f.id: f for f in FORMS}
POS_FORMS = [f for f in FORMS if f.mode == "pos"]

# enclosing styles for a captured value: (head, tail)
ENCLOSINGS = [("", ""), ('"', '"'), ("'", "'"), ('\\"', '\\"'), ("\\'", "\\'"), ("[", "]"), ("{", "}"), ("", ";"), ("", ","), ('"', '";'), ("{", "};"), ('["', '"]'),
              # an escaped closing quote followed by further closers (a config line inside a JSON string or a quoted shell argument)
              ('\\"', '\\"",'), ('\\"', '\\"}'), ("\\'", "\\'];"), ('\\"', '\\";'), ('"\\"', '\\""')]


@st.composite
def secret_for(draw, form, cls=None):
    """(class, value) admissible for the form."""
    cls = cls or draw(st.sampled_from(form.classes))
    for _ in range(5):
        v = draw(value_of(cls, **(form.text_kw if cls == "text" else {})))
        if form.reject is None or not form.reject(v):
            return cls, v
    return cls, v + "q"


def render(form, head_i, trail_i, values, enclosing=("", ""), lead="", tail_ws=""):
    """Build (line, spans) where spans are (start, end) of each secret value in the line."""
    head = form.heads[head_i % len(form.heads)]
    trail = form.trails[trail_i % len(form.trails)]
    parts = head.split("{}")
    out = lead
    spans = []
    for i, p in enumerate(parts):
        out += p
        if i < len(parts) - 1:
            eh, et = enclosing if form.enclose else ("", "")
            out += eh
            v = values[i]
            spans.append((len(out), len(out) + len(v)))
            out += v + et
    out += trail + tail_ws
    return out, spans


# every literal keyword that occurs in a password / community pattern (for token soup and the
# standalone-hash generator), and ordinary configuration words that occur in none of them
KEYWORDS = sorted(
    set(
        "set password pksecret ENC passwd level username secret enable sha512 ip ftp ospf authentication-key message-digest-key md5 authentication text isis "
        "level-1 level-2 domain-password area-password standby key-string l2tp tunnel digest ppp hostname pre-shared-key address ipv6 key ikev2 local-authentication "
        "remote-authentication remote local hex hexadecimal ascii-text tacacs-server radius-server ntp syscon snmp-server user auth sha priv 3des aes des crypto "
        "isakmp session-key inbound outbound ah esp cipher authenticator hello-authentication-key cable shared-secret wpa-psk ascii ldap-login-password ikev1 failover "
        "vpdn encrypted neighbor wlccp simple-password encrypted-password ssh-rsa ssh-dsa community host informs traps version vrf snmp trap-group key-hash sha256 mib "
        "community-map snmp-community additive".split()
    )
)
BENIGN = ["interface", "description", "mtu", "router", "bgp", "remote-as", "shutdown", "no", "vlan", "mode", "trunk", "allowed", "permit", "deny", "any", "log", "speed", "duplex", "Gi0/1", "line", "vty", "exec-timeout", "banner", "motd", "service", "timestamps", "debug", "uptime", "clock", "timezone", "UTC"]


def extract_replacements(line, spans, out):
    """Given the input line, the spans of its secret slots and the output line, return the list of
    texts that replaced the slots, or None if the text around the slots was not kept."""
    res = []
    pos_i = pos_o = 0
    for k, (a, b) in enumerate(spans):
        lit = line[pos_i:a]
        if out[pos_o : pos_o + len(lit)] != lit:
            return None
        pos_o += len(lit)
        nxt = line[b : spans[k + 1][0]] if k + 1 < len(spans) else line[b:]
        if k + 1 < len(spans):
            j = out.find(nxt, pos_o + 1) if nxt else -1
        else:
            j = len(out) - len(nxt) if out.endswith(nxt) else -1
        if j < pos_o:
            return None
        res.append(out[pos_o:j])
        pos_o = j
        pos_i = b
    if out[pos_o:] != line[pos_i:]:
        return None
    return res


# Ordinary configuration lines WITHOUT secrets (Cisco IOS / NX-OS / ASA / Junos / Arista flavours).
# With password anonymization on they must come out unchanged (up to inner white space), they must
# never make a stage fail, and their addresses must be handled by the IP stage only.
CORPUS = [
    "interface GigabitEthernet0/1",
    " description uplink to core-sw1 port 12",
    " ip address 10.20.30.40 255.255.255.0",
    " ip address 192.0.2.17 255.255.255.252 secondary",
    " ipv6 address 2001:db8:12:34::56/64",
    " no shutdown",
    " switchport trunk allowed vlan 10,20,30-35",
    "router bgp 65001",
    " neighbor 198.51.100.7 remote-as 64512",
    " neighbor 198.51.100.7 description transit peer",
    " neighbor 2001:db8::7 update-source Loopback0",
    "ip route 0.0.0.0 0.0.0.0 203.0.113.1",
    "ip route 172.16.5.0 255.255.255.0 10.1.1.2 name backup",
    "access-list 101 permit tcp 10.0.0.0 0.255.255.255 host 192.0.2.10 eq 443",
    "ip prefix-list PL seq 5 permit 10.0.0.0/8 le 24",
    "logging host 10.1.1.1",
    "logging 10.9.8.7",
    "ntp server 10.2.2.2 prefer",
    "snmp-server location Building 7, rack 12",
    "snmp-server contact noc@example.com",
    "snmp-server engineID remote 10.1.1.1 udp-port 162 800000090300AABBCCDD",
    "snmp-server engineID local 800000090300001122334455",
    "snmp-server enable traps bgp",
    "ip name-server 10.3.3.3 10.4.4.4",
    "ip domain-name example.com",
    "hostname edge-router-01",
    "aaa new-model",
    "aaa authentication login default group tacacs+ local",
    "line vty 0 4",
    " transport input ssh",
    " exec-timeout 15 0",
    "banner motd ^C Authorized access only ^C",
    "spanning-tree mode rapid-pvst",
    "vlan 120",
    " name servers-blue",
    "ip access-list extended MGMT",
    " permit ip 10.10.0.0 0.0.255.255 any",
    " deny ip any any log",
    "route-map RM-OUT permit 10",
    " match ip address prefix-list PL",
    " set local-preference 200",
    "ip dhcp pool LAN",
    " network 192.168.10.0 255.255.255.0",
    " default-router 192.168.10.1",
    "system {",
    "    host-name mx480-core;",
    "    domain-name example.net;",
    "    name-server {",
    "        10.5.5.5;",
    "    }",
    "    ntp {",
    "        server 10.6.6.6;",
    "    }",
    "    syslog {",
    "        host 10.7.7.7 {",
    "            any notice;",
    "        }",
    "    }",
    "}",
    "interfaces {",
    "    ge-0/0/0 {",
    "        unit 0 {",
    "            family inet {",
    "                address 10.8.8.1/30;",
    "            }",
    "        }",
    "    }",
    "snmp {",
    "    location \"Lab 3\";",
    "    contact \"noc\";",
    "    community public {",
    "        authorization read-only;",
    "    trap-group managers {",
    "        targets {",
    "            10.9.9.9;",
    "policy-options {",
    "    prefix-list MGMT {",
    "        10.0.0.0/8;",
    "    community CUST members 65001:100;",
    "set protocols bgp group ebgp neighbor 192.0.2.1 peer-as 64512",
    "set interfaces ge-0/0/1 unit 0 family inet address 10.11.12.1/24",
    "set routing-options static route 0.0.0.0/0 next-hop 10.11.12.254",
    "set system services ssh root-login deny",
    "mtu 9216",
    "ip ssh version 2",
    "service timestamps log datetime msec",
    "clock timezone UTC 0",
    "vrf definition BLUE",
    " rd 65001:100",
    " route-target export 65001:100",
    "!",
    "end",
    "snmp-server engineID local 800000090300AABBCCDDEEFF",
    "snmp-server engineID remote 10.1.1.1 800000090300AABBCCDDEE01",
    "snmp-server engineID remote 2001:db8::99 udp-port 162 80000009030000112233",
    "snmp-server location Building 7 floor 2 rack 14",
    "snmp-server contact noc at example dot org",
    "snmp-server trap-source Loopback0",
    "snmp-server ifindex persist",
    "snmp-server view ALL iso included",
    "snmp-server group NOCGRP v3 priv read ALL",
    "logging host 192.0.2.50 transport udp port 514",
    "logging source-interface Loopback0",
    "logging buffered 64000 informational",
    "ntp server 192.0.2.123 prefer",
    "ntp source Loopback0",
    "ntp authenticate",
    "ntp trusted-key 5",
    "ip name-server 192.0.2.53 192.0.2.54",
    "ip domain-name corp.example.org",
    "ip ssh source-interface Loopback0",
    "ip access-list extended EDGE-IN",
    " permit tcp 10.0.0.0 0.255.255.255 any eq 443",
    "access-list 10 permit 172.16.5.0 0.0.0.255",
    "ip prefix-list PL-OUT seq 5 permit 203.0.113.0/24 le 28",
    " match ip address prefix-list PL-OUT",
    " set as-path prepend 65001 65001",
    " set community 65001:100 additive",
    " set community no-export",
    "ip community-list standard CL-1 permit 65001:200",
    "aaa authorization exec default group tacacs+ local",
    "aaa accounting commands 15 default start-stop group tacacs+",
    "aaa group server tacacs+ TACGRP",
    " server 192.0.2.61",
    "ip tacacs source-interface Loopback0",
    "tacacs-server timeout 5",
    "radius-server timeout 3",
    "radius-server retransmit 2",
    " login local",
    " access-class 10 in",
    " name USERS-FLOOR2",
    "vrf definition MGMT",
    " rd 65001:10",
    " route-target export 65001:10",
    " address-family ipv4",
    "interface Vlan120",
    " ip helper-address 10.9.8.7",
    " standby 1 ip 10.1.120.1",
    " standby 1 priority 110",
    " standby 1 preempt",
    " vrrp 2 ip 10.1.121.1",
    " ip ospf cost 100",
    " ip ospf network point-to-point",
    " ip ospf authentication message-digest",
    " ip pim sparse-mode",
    "router ospf 1",
    " router-id 10.255.0.1",
    " network 10.1.0.0 0.0.255.255 area 0",
    " passive-interface default",
    " area 1 authentication message-digest",
    "router isis CORE",
    " net 49.0001.0102.5500.0001.00",
    " is-type level-2-only",
    " metric-style wide",
    "crypto isakmp policy 10",
    " encryption aes 256",
    " authentication pre-share",
    " group 14",
    "crypto ipsec transform-set TS esp-aes 256 esp-sha-hmac",
    "crypto map VPN 10 ipsec-isakmp",
    " set peer 198.51.100.20",
    " set transform-set TS",
    " match address VPN-ACL",
    "crypto key generate rsa modulus 2048",
    "crypto pki trustpoint TP-self-signed-12345",
    " enrollment selfsigned",
    " revocation-check none",
    "username admin privilege 15",
    "service password-encryption",
    "service timestamps log datetime msec localtime",
    "no ip http server",
    "ip http secure-server",
    "set system host-name edge-r1",
    "set system time-zone UTC",
    "set system name-server 192.0.2.53",
    "set system syslog host 192.0.2.50 any notice",
    "set system login user ops class super-user",
    "set system login user ops uid 2001",
    "set system ntp server 192.0.2.123",
    "set interfaces ge-0/0/0 unit 0 family inet address 10.4.5.6/30",
    "set interfaces lo0 unit 0 family inet6 address 2001:db8:ffff::1/128",
    "set protocols bgp group EBGP type external",
    "set protocols bgp group EBGP peer-as 64512",
    "set protocols bgp group EBGP neighbor 198.51.100.9",
    "set protocols bgp group EBGP authentication-algorithm md5",
    "set protocols ospf area 0.0.0.0 interface ge-0/0/0.0 metric 10",
    "set protocols isis interface lo0.0 passive",
    "set policy-options prefix-list PL1 203.0.113.0/24",
    "set policy-options policy-statement EXPORT term 1 from protocol direct",
    "set policy-options policy-statement EXPORT term 1 then accept",
    "set policy-options community C1 members 65001:300",
    "set routing-options autonomous-system 65001",
    "set routing-options static route 0.0.0.0/0 next-hop 203.0.113.1",
    "set security zones security-zone trust interfaces ge-0/0/1.0",
    "set security ike proposal P1 authentication-method pre-shared-keys",
    "set security ike proposal P1 dh-group group14",
    "set security ike gateway GW1 address 198.51.100.30",
    "set security ipsec vpn V1 ike gateway GW1",
    "set snmp location \"Building 7\"",
    "set snmp contact \"noc\"",
    "set snmp trap-options source-address 10.255.0.1",
    "set firewall family inet filter F1 term 1 from source-address 10.0.0.0/8",
    "config system global",
    "    set hostname \"fw-edge-1\"",
    "    set timezone 26",
    "    set admintimeout 15",
    "config system interface",
    "    edit \"port1\"",
    "        set ip 192.0.2.1 255.255.255.0",
    "        set allowaccess ping https ssh",
    "        set type physical",
    "config router static",
    "        set gateway 192.0.2.254",
    "        set device \"port1\"",
    "config firewall policy",
    "        set srcintf \"port2\"",
    "        set action accept",
    "        set schedule \"always\"",
    "        set service \"ALL\"",
]
