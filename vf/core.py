"""Core of the harness: seeds, evidence, findings, known findings, Hypothesis driver, sharding.

Nothing in here knows about a particular property.  See DESIGN.md section 2.
"""

import collections
import hashlib
import io
import json
import logging
import os
import sys
import time
import traceback

VERIF = os.path.dirname(os.path.dirname(os.path.abspath(__file__)))
REPO = os.environ.get("VERIF_REPO", "/repo")
SEED = int(os.environ.get("VERIF_SEED", "1") or "1")

# --------------------------------------------------------------------------- code under test


def import_netconan():
    """Import netconan from REPO's working tree (never from a cached or installed copy)."""
    sys.dont_write_bytecode = True
    if REPO not in sys.path[:1]:
        sys.path.insert(0, REPO)
    import netconan  # noqa

    here = os.path.realpath(os.path.dirname(netconan.__file__))
    if not here.startswith(os.path.realpath(REPO) + os.sep):
        raise HarnessError("netconan imported from %s, not from %s" % (here, REPO))
    # netconan logs through the root logger; without a handler logging.warning() would call
    # basicConfig() and write to stderr.  A NullHandler keeps it quiet, checks that need the
    # records install their own handler (capture_logs).
    root = logging.getLogger()
    if not any(isinstance(h, logging.NullHandler) for h in root.handlers):
        root.addHandler(logging.NullHandler())
    root.setLevel(logging.INFO)
    return netconan


class HarnessError(Exception):
    """A failure of the machinery itself: exit 2, never a VIOLATION."""


_RESERVED_SNAPSHOT = None


def reset_globals():
    """Restore module-level state of netconan that a previous case may have changed."""
    global _RESERVED_SNAPSHOT
    from netconan.default_reserved_words import default_reserved_words as rw

    if _RESERVED_SNAPSHOT is None:
        _RESERVED_SNAPSHOT = frozenset(rw)
    elif len(rw) != len(_RESERVED_SNAPSHOT) or set(rw) != _RESERVED_SNAPSHOT:
        rw.clear()
        rw.update(_RESERVED_SNAPSHOT)


def builtin_reserved():
    reset_globals()
    return _RESERVED_SNAPSHOT


class ListHandler(logging.Handler):
    def __init__(self, level=logging.INFO):
        super().__init__(level)
        self.records = []

    def emit(self, record):
        try:
            msg = record.getMessage()
        except Exception as e:  # a broken log call inside netconan
            msg = "<unformattable %r %r: %s>" % (record.msg, record.args, e)
        self.records.append((record.levelname, msg))


class capture_logs:
    """Context manager collecting (levelname, message) of root-logger records >= level."""

    def __init__(self, level=logging.INFO):
        self.h = ListHandler(level)
        self.level = level

    def __enter__(self):
        root = logging.getLogger()
        self.old = root.level
        root.setLevel(min(self.level, logging.INFO))
        root.addHandler(self.h)
        return self.h.records

    def __exit__(self, *a):
        root = logging.getLogger()
        root.removeHandler(self.h)
        root.setLevel(self.old)
        return False


# --------------------------------------------------------------------------- seeds and hashing


def derive(*parts):
    """Deterministic 63-bit seed from VERIF_SEED and any labels."""
    h = hashlib.sha256(repr((SEED,) + parts).encode()).digest()
    return int.from_bytes(h[:8], "big") >> 1


def case_hash(case):
    return hashlib.sha1(repr(case).encode("utf-8", "surrogatepass")).digest()[:8]


# --------------------------------------------------------------------------- findings


class Finding:
    """A property violation observed on one case.  key names the root cause (DESIGN 2.4)."""

    def __init__(self, key, detail, case, check=None):
        self.key = key
        # (lines of tens of thousands of characters are abbreviated in the report, never in the case)
        self.detail = detail if len(detail) <= 4000 else detail[:1800] + " ...[%d characters]... " % (len(detail) - 3600) + detail[-1800:]
        self.case = case
        self.check = check

    def to_json(self, prop):
        return {
            "property": prop,
            "check": self.check,
            "key": self.key,
            "detail": self.detail,
            "case": self.case,
        }

    def __repr__(self):
        return "Finding(%s: %s)" % (self.key, self.detail[:300])


def exc_key(exc):
    """Root-cause signature of an exception: type + innermost frame inside netconan/."""
    tb = traceback.extract_tb(exc.__traceback__)
    where = "outside-netconan"
    for fr in reversed(tb):
        fn = fr.filename.replace("\\", "/")
        if "/netconan/" in fn and "/vf/" not in fn:
            where = "%s:%s" % (fn.split("/netconan/")[-1], fr.name)
            break
    return "exc:%s@%s" % (type(exc).__name__, where)


def guarded(fn, *a, **kw):
    """Call netconan code; return (value, None) or (None, exception)."""
    try:
        return fn(*a, **kw), None
    except RecursionError as e:
        return None, e
    except Exception as e:  # noqa - any exception escaping netconan is data for the oracle
        return None, e


def exc_finding(exc, case, prefix=""):
    return Finding(
        prefix + exc_key(exc),
        "%s: %s" % (type(exc).__name__, str(exc)[:200]),
        case,
    )


# --------------------------------------------------------------------------- known findings


class Known:
    """Parsed known_findings.txt (committed, never written at run time)."""

    def __init__(self, prop):
        self.prop = prop
        self.known = {}  # key -> (witness path or None, text)
        self.fixed = []  # text lines
        path = os.path.join(VERIF, "known_findings.txt")
        if not os.path.exists(path):
            return
        for line in open(path, encoding="utf-8"):
            line = line.strip()
            if not line or line.startswith("#"):
                continue
            kind, _, rest = line.partition(":")
            fields = rest.split()
            kv = dict(f.split("=", 1) for f in fields if "=" in f and f.split("=")[0] in ("property", "key", "witness"))
            if kv.get("property") != prop:
                continue
            if kind == "known":
                text = " ".join(f for f in fields if not f.startswith(("property=", "witness=")))
                self.known[kv["key"]] = (kv.get("witness"), text)
            elif kind == "fixed":
                self.fixed.append(rest.strip())

    def keys(self):
        return set(self.known)


# --------------------------------------------------------------------------- evidence


class Ev:
    """Counters of one sub-check (mergeable across shards)."""

    NSAMPLES = 6

    def __init__(self):
        self.evaluations = 0
        self.nt = set()
        self.classes = collections.Counter()
        self.first = []
        self.low = []  # (hash, case) with smallest hashes among non-trivial cases
        self.excluded_known = collections.Counter()
        self.excluded_domain = collections.Counter()
        self.exhaustive = {}
        self.notes = {}

    def case(self, case, nontrivial, classes=()):
        self.evaluations += 1
        for c in classes:
            self.classes[c] += 1
        if nontrivial:
            h = case_hash(case)
            if h not in self.nt:
                self.nt.add(h)
                if len(self.first) < 2:
                    self.first.append(case)
                elif len(self.low) < self.NSAMPLES or h < self.low[-1][0]:
                    self.low.append((h, case))
                    self.low.sort(key=lambda t: t[0])
                    del self.low[self.NSAMPLES :]

    def bulk(self, evaluations, nontrivial, sample=None, classes=None):
        """For enumerators: account many cases at once (all distinct by construction)."""
        self.evaluations += evaluations
        self._bulk_nt = getattr(self, "_bulk_nt", 0) + nontrivial
        if sample is not None and len(self.first) < 4:
            self.first.append(sample)
        if classes:
            self.classes.update(classes)

    def merge(self, other):
        self.evaluations += other.evaluations
        self.nt |= other.nt
        self._bulk_nt = getattr(self, "_bulk_nt", 0) + getattr(other, "_bulk_nt", 0)
        self.classes.update(other.classes)
        self.excluded_known.update(other.excluded_known)
        self.excluded_domain.update(other.excluded_domain)
        for c in other.first:
            if len(self.first) < 3:
                self.first.append(c)
        self.low = sorted(self.low + other.low, key=lambda t: t[0])[: self.NSAMPLES]
        for k, v in other.exhaustive.items():
            if k in self.exhaustive and isinstance(v, int):
                self.exhaustive[k] += v
            else:
                self.exhaustive[k] = v
        for k, v in other.notes.items():
            if k in self.notes and isinstance(v, (int, float)) and isinstance(self.notes[k], (int, float)):
                self.notes[k] += v
            elif k in self.notes and isinstance(v, list):
                self.notes[k] = sorted(set(self.notes[k]) | set(v))
            else:
                self.notes[k] = v

    @property
    def distinct_nontrivial(self):
        return len(self.nt) + getattr(self, "_bulk_nt", 0)

    def samples(self):
        return [c for c in self.first] + [c for _, c in self.low]

    def summary(self):
        d = {
            "evaluations": self.evaluations,
            "distinct_nontrivial": self.distinct_nontrivial,
            "classes": dict(sorted(self.classes.items(), key=lambda kv: (-kv[1], kv[0]))[:60]),
        }
        if self.excluded_known:
            d["excluded_known"] = dict(self.excluded_known)
        if self.excluded_domain:
            d["excluded_domain"] = dict(self.excluded_domain)
        if self.exhaustive:
            d["exhaustive_subspaces"] = self.exhaustive
        if self.notes:
            d["notes"] = self.notes
        return d


def jsonable(x, depth=0):
    """Make a case printable in the evidence (long strings clipped)."""
    if isinstance(x, str):
        return x if len(x) <= 400 else x[:200] + "...<%d chars>..." % len(x) + x[-50:]
    if isinstance(x, bytes):
        return {"bytes": x[:200].hex()}
    if isinstance(x, (int, float, bool)) or x is None:
        return x
    if isinstance(x, dict):
        return {str(k): jsonable(v, depth + 1) for k, v in list(x.items())[:40]}
    if isinstance(x, (list, tuple)):
        return [jsonable(v, depth + 1) for v in list(x)[:40]]
    return repr(x)[:400]


# --------------------------------------------------------------------------- Hypothesis driver


class _Fail(Exception):
    pass


def call_check(check, case, ev):
    """Run a plain check function.  Check functions guard the calls whose failure is the subject of
    the property; an exception that still escapes from *inside netconan* (for instance from a
    reference computation through the integer API) is a finding too, never a harness error."""
    try:
        return check(case, ev)
    except (HarnessError, _Fail, KeyboardInterrupt):
        raise
    except Exception as e:  # noqa
        key = exc_key(e)
        if key.endswith("@outside-netconan"):
            raise
        return exc_finding(e, case, "unguarded/")


def hyp_drive(strategy, check, n, seed_, ev, known_keys=(), shrink=True, max_keys=6, check_name=None):
    """Run `check(case, ev) -> Finding | None` on n generated cases.

    Findings whose key is a known finding are counted and the case passes, so the search goes
    on behind them.  Any other finding is shrunk; then that key is excluded too and the search
    is repeated, so that one run reports every distinct root cause it can reach
    (collect-then-shrink), at most max_keys of them.  Returns the list of shrunk findings.
    """
    from hypothesis import HealthCheck, Phase, given, seed, settings

    phases = [Phase.explicit, Phase.generate, Phase.target]
    if shrink:
        phases.append(Phase.shrink)
    collected = {}
    state = {}

    for round_ in range(max_keys + 1):
        state["last"] = None
        state["first"] = None

        @seed(seed_ + round_)
        @settings(
            max_examples=n,
            database=None,
            deadline=None,
            derandomize=False,
            report_multiple_bugs=False,
            phases=phases,
            suppress_health_check=list(HealthCheck),
            print_blob=False,
        )
        @given(strategy)
        def run(case):
            reset_globals()
            f = call_check(check, case, ev)
            if f is None:
                return
            if f.key in known_keys:
                ev.excluded_known[f.key] += 1
                return
            if f.key in collected:
                return
            state["last"] = f
            if state["first"] is None:
                state["first"] = f
            raise _Fail(f.key)

        try:
            # hypothesis prints the falsifying example to stdout through its reporter; silence it
            from hypothesis import reporting

            with reporting.with_reporter(lambda *_a, **_k: None):
                run()
            break
        except _Fail:
            f = state["last"]
            f.check = check_name
            collected[f.key] = f
            if round_ == max_keys:
                break
        except Exception as e:
            # Hypothesis reports a failure that does not repeat when the same case is run again in
            # this process as Flaky.  With a deterministic harness that means the code under test
            # keeps state between cases (exactly what C03/C13 look for): report the first failing
            # case, unshrunk.  Anything else is a harness error and propagates.
            if state["first"] is None or "lak" not in type(e).__name__:
                raise
            f = state["first"]
            f.check = check_name
            f.detail += "  [not repeatable within the same process: the outcome depends on state left by earlier cases]"
            collected[f.key] = f
            if round_ == max_keys:
                break
    return list(collected.values())


def enum_drive(cases, check, ev, known_keys=(), check_name=None, max_keys=5):
    """Same contract as hyp_drive for an explicit iterable of cases (no shrinking: callers
    enumerate small-to-large, so the first failing case of a key is a minimal one)."""
    collected = {}
    for case in cases:
        f = call_check(check, case, ev)
        if f is None:
            continue
        if f.key in known_keys:
            ev.excluded_known[f.key] += 1
            continue
        if f.key in collected:
            continue
        f.check = check_name
        if len(collected) < max_keys:
            collected[f.key] = f
    return list(collected.values())


# --------------------------------------------------------------------------- tasks


class Task:
    """One sub-check: fn(shard, nshards, seed, ev, known_keys, **kw) -> list[Finding]."""

    def __init__(self, name, fn, shards=1, **kw):
        self.name = name
        self.fn = fn
        self.shards = shards
        self.kw = kw


def ddmin(items, fails):
    """Classic delta debugging over a list; `fails(sublist)` is True when still failing."""
    items = list(items)
    n = 2
    while len(items) >= 2:
        chunk = max(1, len(items) // n)
        subsets = [items[i : i + chunk] for i in range(0, len(items), chunk)]
        reduced = False
        for i, s in enumerate(subsets):
            comp = [x for j, t in enumerate(subsets) if j != i for x in t]
            if comp and fails(comp):
                items = comp
                n = max(n - 1, 2)
                reduced = True
                break
        if not reduced:
            if n >= len(items):
                break
            n = min(len(items), n * 2)
    return items


def run_io(fa, text, nonl=False):
    """FileAnonymizer.anonymize_io on a string.  nonl: the input is fed WITHOUT its final newline (a
    file whose last line is unterminated); the terminator is put back on the result, so the caller's
    oracle is the same as for terminated input."""
    out = io.StringIO()
    cut = nonl and text.endswith("\n") and not text.endswith("\r\n")
    fa.anonymize_io(io.StringIO(text[:-1] if cut else text, newline=""), out)
    return out.getvalue() + ("\n" if cut else "")


def now():
    return time.time()


def machine_drive(make_machine, n, steps, seed_, ev, known_keys=(), check_name=None, max_keys=4, shrink=True):
    """Stateful counterpart of hyp_drive.  make_machine(report) returns a RuleBasedStateMachine
    class whose rules call report(finding) when a step violates the oracle; report raises unless
    the finding is known/collected.  The finding's case must be the history so far (replayable
    by the plain check function, without Hypothesis)."""
    from hypothesis import HealthCheck, Phase, reporting, seed, settings
    from hypothesis.stateful import run_state_machine_as_test

    phases = [Phase.explicit, Phase.generate, Phase.target] + ([Phase.shrink] if shrink else [])
    collected = {}
    for round_ in range(max_keys + 1):
        state = {"last": None, "first": None}

        def report(f, state=state):
            if f is None:
                return
            if f.key in known_keys:
                ev.excluded_known[f.key] += 1
                return
            if f.key in collected:
                return
            state["last"] = f
            if state["first"] is None:
                state["first"] = f
            raise _Fail(f.key)

        M = make_machine(report)
        st_ = settings(
            max_examples=n,
            stateful_step_count=steps,
            database=None,
            deadline=None,
            derandomize=False,
            report_multiple_bugs=False,
            phases=phases,
            suppress_health_check=list(HealthCheck),
            print_blob=False,
        )
        try:
            with reporting.with_reporter(lambda *_a, **_k: None):
                run_state_machine_as_test(seed(seed_ + round_)(M), settings=st_)
            break
        except _Fail:
            f = state["last"]
        except Exception as e:
            if state["first"] is None or "lak" not in type(e).__name__:
                raise
            f = state["first"]
            f.detail += "  [not repeatable within the same process: the outcome depends on state left by earlier cases]"
        f.check = check_name
        collected[f.key] = f
        if round_ == max_keys:
            break
    return list(collected.values())


def collect_cases(strategy, n, seed_):
    """Draw n cases from a strategy deterministically (no check attached, nothing to shrink)."""
    from hypothesis import HealthCheck, Phase, given, seed, settings

    out = []

    @seed(seed_)
    @settings(max_examples=n, database=None, deadline=None, phases=[Phase.generate], suppress_health_check=list(HealthCheck))
    @given(strategy)
    def run(case):
        out.append(case)

    run()
    return out


def run_worker(module, function, cases, hashseed, keep_state=False, timeout=1800):
    """Run vf.worker in a fresh interpreter with the given PYTHONHASHSEED ('random' allowed)."""
    import subprocess

    env = dict(os.environ, PYTHONHASHSEED=str(hashseed), PYTHONDONTWRITEBYTECODE="1", VERIF_REPO=REPO)
    p = subprocess.run(
        [sys.executable, "-m", "vf.worker", module, function],
        input=json.dumps({"cases": cases, "keep_state": keep_state}),
        capture_output=True,
        text=True,
        env=env,
        cwd=VERIF,
        timeout=timeout,
    )
    if p.returncode != 0:
        raise HarnessError("worker %s.%s failed (hash seed %s): %s" % (module, function, hashseed, p.stderr[-2000:]))
    return json.loads(p.stdout)["results"]


def greedy_minimize(finding, check, candidates, budget=60):
    """Harness-side minimisation for checks that run without Hypothesis's shrinker (file-system and
    subprocess based ones): repeatedly try the smaller cases produced by candidates(case) and keep
    one whenever it still fails with the same key.  Bounded by `budget` check evaluations."""
    best = finding
    spent = 0
    progress = True
    while progress and spent < budget:
        progress = False
        for cand in candidates(best.case):
            if spent >= budget:
                break
            spent += 1
            try:
                reset_globals()
                f = call_check(check, cand, Ev())
            except Exception:
                continue
            if f is not None and f.key == best.key:
                f.check = best.check
                best = f
                progress = True
                break
    return best
