"""Independent address-token scanner for C06 (and C17).  No regular expression, nothing shared with
netconan: maximal runs by character class, IPv4 validity by splitting and integer comparison,
IPv6 validity by the standard library's parser.

A *super-token* is a maximal run of ASCII letters, digits, '.' and ':'.
  - no ':' in it  -> IPv4 rule: an address iff it is exactly four non-empty all-digit parts <= 255
                     (leading zeros allowed);
  - no '.' in it  -> IPv6 rule: an address iff ipaddress.IPv6Address accepts it;
  - both          -> if the whole super-token is a valid IPv6 address (IPv4 tail) it is one address;
                     otherwise the per-family token rule of the property applies (IPv4 tokens are
                     maximal runs of [A-Za-z0-9.], IPv6 tokens maximal runs of [A-Za-z0-9:]) only if
                     no IPv6 token inside it is valid and no dot-delimited part of it is a valid
                     IPv6 address with IPv4 tail; else the case is unspecified (None).
A '/' directly after an address followed by digits is a length suffix and stays as written.
"""

import ipaddress
import string

_ALNUM = set(string.ascii_letters + string.digits)
SUPER = _ALNUM | {".", ":"}
AL4 = _ALNUM | {"."}
AL6 = _ALNUM | {":"}


def runs(s, alpha):
    out = []
    i = 0
    n = len(s)
    while i < n:
        if s[i] in alpha:
            j = i
            while j < n and s[j] in alpha:
                j += 1
            out.append((i, j))
            i = j
        else:
            i += 1
    return out


def v4_value(tok):
    p = tok.split(".")
    if len(p) != 4:
        return None
    val = 0
    for x in p:
        if not x or not all(c in "0123456789" for c in x):
            return None
        v = int(x)
        if v > 255:
            return None
        val = (val << 8) | v
    return val


def v6_value(tok):
    if ":" not in tok:
        return None
    try:
        return int(ipaddress.IPv6Address(tok))
    except ValueError:
        return None


def is_mask(n):
    b = format(n, "032b")
    return b.lstrip("1").strip("0") == "" or b.lstrip("0").strip("1") == ""


def _embedded_v6tail(tok):
    """True if a dot-delimited sub-span of the super-token is a valid IPv6 address with an IPv4
    tail (e.g. '.1:2:3:4:5:6:1.2.3.4' or '::1.2.3.4.').  For plain IPv6 tokens a neighbouring dot
    is a delimiter, for IPv4 tokens it is not; which of the two applies to an IPv6 address that
    itself contains dots is not specified, so such super-tokens are not judged."""
    starts = [0] + [k + 1 for k, c in enumerate(tok) if c == "."]
    ends = [len(tok)] + [k for k, c in enumerate(tok) if c == "."]
    for p in starts:
        for q in ends:
            if q - p >= 9 and p < q and (p, q) != (0, len(tok)):
                sub = tok[p:q]
                if "." in sub and ":" in sub and v6_value(sub) is not None:
                    return True
    return False


def scan(line):
    """Yield (start, end, kind, value) for every super-token; kind in
    v4 | v6 | v6tail | plain | mixed_v4 (value = list of (start,end,int)) | ambiguous."""
    for i, j in runs(line, SUPER):
        tok = line[i:j]
        if ":" not in tok:
            n = v4_value(tok)
            yield (i, j, "v4" if n is not None else "plain", n)
        elif "." not in tok:
            n = v6_value(tok)
            yield (i, j, "v6" if n is not None else "plain", n)
        else:
            n = v6_value(tok)
            if n is not None:
                yield (i, j, "v6tail", n)
                continue
            if any(v6_value(tok[a:b]) is not None for a, b in runs(tok, AL6)) or _embedded_v6tail(tok):
                yield (i, j, "ambiguous", None)
                continue
            subs = [(i + a, i + b, v4_value(tok[a:b])) for a, b in runs(tok, AL4)]
            subs = [t for t in subs if t[2] is not None]
            yield (i, j, "mixed_v4" if subs else "plain", subs)


def expected(line, map4, map6, preserved4=lambda n: False):
    """Expected output of the IPv6-then-IPv4 substitution.  map4/map6: int -> int.
    Returns (text or None when unspecified, list of token classes)."""
    out = []
    pos = 0
    classes = []

    def v4_text(tok, n):
        if is_mask(n):
            classes.append("mask")
            return tok
        if preserved4(n):
            classes.append("preserved")
            return tok
        classes.append("v4")
        return str(ipaddress.IPv4Address(map4(n)))

    for i, j, kind, val in scan(line):
        out.append(line[pos:i])
        tok = line[i:j]
        pos = j
        if kind == "plain":
            classes.append("plain")
            out.append(tok)
        elif kind == "v4":
            out.append(v4_text(tok, val))
        elif kind == "v6":
            classes.append("v6")
            out.append(str(ipaddress.IPv6Address(map6(val))))
        elif kind == "v6tail":
            classes.append("v6tail")
            out.append(str(ipaddress.IPv6Address(map6(val))))
        elif kind == "ambiguous":
            return None, ["ambiguous"]
        else:
            p = i
            for a, b, n in val:
                out.append(line[p:a])
                out.append(v4_text(line[a:b], n))
                p = b
            out.append(line[p:j])
            classes.append("mixed_v4")
    out.append(line[pos:])
    return "".join(out), classes
