"""Independent Cisco type-7 codec (XOR with the well-known 53-character key)."""

KEY = "dsfd;kfoA,.iyewrkldJKDHSUBsgvca69834ncxv9873254k;fg87"
assert len(KEY) == 53


def encode(plain, salt):
    if not 0 <= salt <= 52:
        raise ValueError("salt")
    out = ["%02d" % salt]
    for i, ch in enumerate(plain):
        out.append("%02X" % (ord(ch) ^ ord(KEY[(salt + i) % 53])))
    return "".join(out)


def decode(s):
    """Return the plaintext or raise ValueError if s is not a well-formed type-7 string."""
    if len(s) < 4 or len(s) % 2 or not s[:2].isdigit() or not s.isascii():
        raise ValueError("shape")
    salt = int(s[:2])
    if salt > 52:
        raise ValueError("salt")
    out = []
    for i in range((len(s) - 2) // 2):
        pair = s[2 + 2 * i : 4 + 2 * i]
        if any(c not in "0123456789abcdefABCDEF" for c in pair):
            raise ValueError("hex")
        out.append(chr(int(pair, 16) ^ ord(KEY[(salt + i) % 53])))
    return "".join(out)


assert decode("094F4107180B") == decode(encode(decode("094F4107180B"), 9))
assert encode("cisco", 2) == "02050D480809" and decode("02050D480809") == "cisco"
