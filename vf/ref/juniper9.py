"""Independent Juniper $9$ codec, written from the published description of the algorithm
(Crypt::Juniper): integer arithmetic on alphabet positions, no code shared with netconan.

A $9$ string is  "$9$" + S + filler + groups  where S is the salt character, filler has
3 - family(S) characters that are ignored, and the plaintext characters are coded one by one
as groups of 2-4 characters.  Group lengths and weights follow a cycle of seven tables.  Each
character of a group codes a "gap" to the previous character (the salt character to begin
with): gap = (pos(c) - pos(prev)) mod 65 - 1, and the plaintext code point is
sum(gap_i * weight_i) mod 256.
"""

MAGIC = "$9$"
_FAMILIES = ("QzF3n6/9CAtpu0O", "B1IREhcSyrleKvMW8LXx", "7N-dVbwsY2g4oaJZGUDj", "iHkq.mPf5T")
ALPHABET = "".join(_FAMILIES)
assert len(ALPHABET) == 65 and len(set(ALPHABET)) == 65
POS = {c: i for i, c in enumerate(ALPHABET)}
WEIGHTS = ((1, 4, 32), (1, 16, 32), (1, 8, 32), (1, 64), (1, 32), (1, 4, 16, 128), (1, 32, 64))


def filler_len(salt_char):
    for fam, chars in enumerate(_FAMILIES):
        if salt_char in chars:
            return 3 - fam
    raise KeyError(salt_char)


def structure(s):
    """Return None if s is a well-formed $9$ string, else a short reason."""
    if not isinstance(s, str) or not s.startswith(MAGIC):
        return "magic"
    body = s[len(MAGIC):]
    if not body:
        return "empty-body"
    for ch in body:
        if ch not in POS:
            return "alphabet"
    skip = 1 + filler_len(body[0])
    if len(body) < skip:
        return "short-filler"
    rest = len(body) - skip
    i = 0
    while rest > 0:
        need = len(WEIGHTS[i % 7])
        if rest < need:
            return "truncated-group"
        rest -= need
        i += 1
    return None


def n_plain(s):
    """Number of plaintext characters coded by a well-formed string."""
    body = s[len(MAGIC):]
    rest = len(body) - 1 - filler_len(body[0])
    i = 0
    while rest > 0:
        rest -= len(WEIGHTS[i % 7])
        i += 1
    return i


def decode(s):
    why = structure(s)
    if why is not None:
        raise ValueError(why)
    body = s[len(MAGIC):]
    prev = POS[body[0]]
    k = 1 + filler_len(body[0])
    out = []
    while k < len(body):
        w = WEIGHTS[len(out) % 7]
        total = 0
        for weight in w:
            cur = POS[body[k]]
            total += (((cur - prev) % 65) - 1) * weight
            prev = cur
            k += 1
        out.append(chr(total % 256))
    return "".join(out)


def encode(plain, salt_char, filler=None):
    """Encode with a given salt character and filler characters (default: prefix of 'net')."""
    n = filler_len(salt_char)
    if filler is None:
        filler = "net"[:n]
    if len(filler) != n or any(c not in POS for c in filler):
        raise ValueError("bad filler")
    out = [salt_char, filler]
    prev = POS[salt_char]
    for i, ch in enumerate(plain):
        v = ord(ch)
        if v > 255:
            raise ValueError("code point > 255")
        w = WEIGHTS[i % 7]
        gaps = [0] * len(w)
        for j in range(len(w) - 1, -1, -1):
            gaps[j], v = divmod(v, w[j])
        for g in gaps:
            prev = (prev + g + 1) % 65
            out.append(ALPHABET[prev])
    return MAGIC + "".join(out)


def _selftest():
    # known answers from the Crypt::Juniper documentation / netconan's unit tests
    kat = [
        ("$9$CSxptpBREyKvL", "abc"),
        ("$9$-pV24JGDkmf", "123"),
        ("$9$sSgJD.mTn9poJQn9pREcylvLN", "netconan"),
        (
            "$9$Ly.x7VYgJH.5SraGiH5TFn/CO1cylW8xs23/Ap1Ibs24aGf5F/A0EcNVs4Dj5QF6/AlKWdsg-VQ3n/tp-Vbs4JTQnCp0Lx",
            "asvWWcb54DGWFvEjsENnhB__xY49Mn3R",
        ),
    ]
    for c, p in kat:
        assert decode(c) == p, (c, p, decode(c))
        assert decode(encode(p, c[3], c[4:4 + filler_len(c[3])])) == p
    assert encode("abc", "n") == "$9$nnet/9pOBEyrv"
    assert encode("netconan", "n") == "$9$nnet9pBcSe8xdApK8xdg4aZUi.5"
    assert structure("$9$abcd\n") == "alphabet"


_selftest()
