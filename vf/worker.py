"""Batch worker for checks that compare interpreter processes (C10, C13, C16).

    python -m vf.worker <module> <function>     < {"cases": [...]}   > {"results": [...]}

Runs `function(case)` of `vf.props.<module>` for every case in a fresh interpreter whose
PYTHONHASHSEED is chosen by the parent, and prints the JSON-serialisable results.
"""

import importlib
import json
import sys


def main():
    from . import core

    core.import_netconan()
    mod = importlib.import_module("vf.props." + sys.argv[1])
    fn = getattr(mod, sys.argv[2])
    doc = json.load(sys.stdin)
    res = []
    for case in doc["cases"]:
        if not doc.get("keep_state"):
            core.reset_globals()
        try:
            res.append({"ok": fn(case)})
        except Exception as e:  # noqa
            res.append({"exc": "%s: %s" % (type(e).__name__, str(e)[:200]), "key": core.exc_key(e)})
    json.dump({"results": res}, sys.stdout)


if __name__ == "__main__":
    main()
