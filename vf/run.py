"""Entry point:  python -m vf.run <ID> --tier quick|thorough   |   --replay FILE

Exit 0: the property held on everything explored (known findings are listed, not alarms).
Exit 1: at least one violation not listed in known_findings.txt (one VIOLATION line each).
Exit 2: harness error (never a VIOLATION).
"""

import argparse
import glob
import hashlib
import importlib
import json
import multiprocessing
import os
import sys
import time
import traceback


def _reexec_with_fixed_hashseed():
    if os.environ.get("PYTHONHASHSEED") != "0":
        env = dict(os.environ, PYTHONHASHSEED="0", PYTHONDONTWRITEBYTECODE="1")
        os.execve(sys.executable, [sys.executable, "-m", "vf.run"] + sys.argv[1:], env)


_TASKS = None
_KNOWN_KEYS = None


def _outdir(core):
    """Evidence and new replay files go to /verif, except in development runs against a scratch
    copy of the repository (VERIF_REPO set), which must not overwrite the real evidence."""
    if os.path.realpath(core.REPO) == "/repo":
        return core.VERIF
    d = os.path.join("/tmp", "vf-scratch-out", os.path.basename(os.path.realpath(core.REPO)))
    os.makedirs(d, exist_ok=True)
    return d


def _job(arg):
    ti, shard = arg
    from . import core

    task = _TASKS[ti]
    ev = core.Ev()
    t0 = time.time()
    try:
        core.reset_globals()
        findings = task.fn(shard, task.shards, core.derive(task.name, shard), ev, _KNOWN_KEYS, **task.kw)
        for f in findings:
            if f.check is None:
                f.check = task.name
        return ti, shard, ev, findings, None, time.time() - t0
    except BaseException:
        return ti, shard, ev, [], traceback.format_exc(), time.time() - t0


def main(argv=None):
    ap = argparse.ArgumentParser()
    ap.add_argument("prop")
    ap.add_argument("--tier", default=os.environ.get("VERIF_TIER", "quick"), choices=["quick", "thorough"])
    ap.add_argument("--replay")
    ap.add_argument("--only", help="comma separated sub-check names (development aid)")
    ap.add_argument("--procs", type=int, default=int(os.environ.get("VERIF_PROCS", "16")))
    args = ap.parse_args(argv)
    _reexec_with_fixed_hashseed()

    from . import core

    t0 = time.time()
    prop = args.prop.upper()
    try:
        core.import_netconan()
        core.reset_globals()
        mod = importlib.import_module("vf.props.%s" % prop.lower())
    except Exception:
        traceback.print_exc()
        print("HARNESS-ERROR property=%s cannot import code under test / check module" % prop)
        return 2
    known = core.Known(prop)

    if args.replay:
        return replay_one(mod, prop, args.replay, known)

    violations = []  # (finding, path)
    known_lines = []
    seen_known_keys = set()

    # ---- replay tier: committed witnesses first
    rep_ok = rep_fail = 0
    for path in sorted(glob.glob(os.path.join(core.VERIF, "replays", prop, "*.json"))):
        try:
            doc = json.load(open(path, encoding="utf-8"))
            core.reset_globals()
            f = core.call_check(mod.REPLAY[doc["check"]], doc["case"], core.Ev())
        except Exception:
            traceback.print_exc()
            print("HARNESS-ERROR property=%s malformed replay %s" % (prop, path))
            return 2
        if f is None:
            rep_ok += 1
        elif f.key in known.known:
            seen_known_keys.add(f.key)
            rep_fail += 1
        else:
            rep_fail += 1
            f.check = doc["check"]
            violations.append((f, path))

    # ---- generated tiers
    global _TASKS, _KNOWN_KEYS
    _TASKS = mod.plan(args.tier)
    if args.only:
        keep = set(args.only.split(","))
        _TASKS = [t for t in _TASKS if t.name in keep]
    _KNOWN_KEYS = known.keys()
    jobs = [(ti, s) for ti, t in enumerate(_TASKS) for s in range(t.shards)]
    evs = {t.name: core.Ev() for t in _TASKS}
    walls = {t.name: 0.0 for t in _TASKS}
    errors = []
    nproc = max(1, min(args.procs, len(jobs)))
    if nproc == 1:
        results = map(_job, jobs)
    else:
        ctx = multiprocessing.get_context("fork")
        pool = ctx.Pool(nproc, maxtasksperchild=1)
        results = pool.imap_unordered(_job, jobs, chunksize=1)
    found = {}
    for ti, shard, ev, findings, err, wall in results:
        name = _TASKS[ti].name
        evs[name].merge(ev)
        walls[name] = max(walls[name], wall)
        if err:
            errors.append((name, shard, err))
        for f in findings:
            found.setdefault((f.check, f.key), f)
    if nproc > 1:
        pool.close()
        pool.join()
    if errors:
        for name, shard, err in errors:
            sys.stderr.write("worker %s/%d failed:\n%s\n" % (name, shard, err))
        print("HARNESS-ERROR property=%s %d worker(s) failed" % (prop, len(errors)))
        return 2

    for (chk, key), f in sorted(found.items(), key=lambda kv: kv[0]):
        doc = f.to_json(prop)
        blob = json.dumps(doc, ensure_ascii=True, sort_keys=True)
        d = os.path.join(_outdir(core), "replays", "found", prop)
        os.makedirs(d, exist_ok=True)
        path = os.path.join(d, hashlib.sha1(blob.encode()).hexdigest()[:16] + ".json")
        with open(path, "w", encoding="utf-8") as fh:
            fh.write(json.dumps(doc, ensure_ascii=True, indent=1, sort_keys=True))
        violations.append((f, path))

    # ---- known findings: one line each (seen in the replay tier or excluded during search)
    for name, ev in evs.items():
        seen_known_keys |= set(ev.excluded_known)
    for key, (witness, text) in sorted(known.known.items()):
        if key in seen_known_keys:
            known_lines.append("KNOWN-FINDING: property=%s %s" % (prop, text))
        else:
            known_lines.append(
                "NOTE: property=%s listed finding not reproduced in this run (%s)" % (prop, key)
            )

    # ---- evidence
    total = core.Ev()
    for ev in evs.values():
        total.merge(ev)
    samples = []
    for name, ev in evs.items():
        for c in ev.samples()[:4]:
            samples.append({"check": name, "case": core.jsonable(c)})
    coverage = {
        "evaluations": total.evaluations,
        "distinct_nontrivial": sum(ev.distinct_nontrivial for ev in evs.values()),
        "rule": mod.RULE,
        "samples": samples,
        "exhaustive": False,
        "subchecks": {name: dict(ev.summary(), wall_s=round(walls[name], 2)) for name, ev in evs.items()},
        "replay_tier": {"passed": rep_ok, "failing": rep_fail},
        "excluded_known": dict(total.excluded_known),
        "excluded_domain": dict(total.excluded_domain),
        "known_findings_listed": sorted(known.known),
        "fixed_findings_listed": known.fixed,
    }
    doc = {
        "property_id": prop,
        "tier": args.tier,
        "seed": core.SEED,
        "level": "exploration",
        "coverage": coverage,
        "assumptions": list(getattr(mod, "ASSUMPTIONS", [])),
        "wall_s": round(time.time() - t0, 2),
        "violations": len(violations),
    }
    os.makedirs(os.path.join(_outdir(core), "evidence"), exist_ok=True)
    evpath = os.path.join(_outdir(core), "evidence", "%s.json" % prop)
    with open(evpath + ".tmp", "w", encoding="utf-8") as fh:
        json.dump(doc, fh, indent=1, ensure_ascii=True)
        fh.write("\n")
    os.replace(evpath + ".tmp", evpath)

    for line in known_lines:
        print(line)
    for f, path in violations:
        print("  violated: %s [%s] %s" % (f.key, f.check, f.detail[:400].replace("\n", "\\n")))
        print("VIOLATION property=%s replay=%s" % (prop, path))
    print(
        "%s %s: %d evaluations, %d distinct non-trivial, %d violation(s), %.1fs"
        % (prop, args.tier, total.evaluations, coverage["distinct_nontrivial"], len(violations), time.time() - t0)
    )
    return 1 if violations else 0


def replay_one(mod, prop, path, known):
    from . import core

    try:
        doc = json.load(open(path, encoding="utf-8"))
        f = core.call_check(mod.REPLAY[doc["check"]], doc["case"], core.Ev())
    except Exception:
        traceback.print_exc()
        print("HARNESS-ERROR property=%s malformed replay %s" % (prop, path))
        return 2
    if f is None:
        print("replay %s: property holds on this case" % path)
        return 0
    if f.key in known.known:
        print("KNOWN-FINDING: property=%s %s" % (prop, known.known[f.key][1]))
        return 0
    print("  violated: %s %s" % (f.key, f.detail[:400].replace("\n", "\\n")))
    print("VIOLATION property=%s replay=%s" % (prop, path))
    return 1


if __name__ == "__main__":
    try:
        rc = main()
    except SystemExit:
        raise
    except BaseException:
        traceback.print_exc()
        print("HARNESS-ERROR unexpected failure of the runner")
        rc = 2
    sys.stdout.flush()
    sys.exit(rc)
