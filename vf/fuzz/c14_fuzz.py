"""atheris (libFuzzer) campaign for C14, thorough tier only.

Driver side: t_fuzz() builds a seed corpus (recognised line forms with sample values, poisonous
tokens) and a keyword dictionary in a scratch directory under /verif/.fuzz, starts this module as
a separate process (atheris.Fuzz never returns) and reads the statistics file it writes.

Target side: bytes -> (feature subset, salt, line) through a FuzzedDataProvider; the C14 oracle
(vf.props.c14.check_line) runs inside the target.  Findings are bucketed by key, the first input
of each new key is saved, and the campaign goes on (a known or already seen key never stops it).
"""

import json
import os
import shutil
import subprocess
import sys

SALTS = ["", "s", "_", "Tsalt", "é", "Q", " "]


def decode(data):
    import atheris

    fdp = atheris.FuzzedDataProvider(data)
    f = fdp.ConsumeIntInRange(0, 31)
    salt = SALTS[fdp.ConsumeIntInRange(0, len(SALTS) - 1)]
    line = fdp.ConsumeUnicodeNoSurrogates(4096).replace("\n", " ").replace("\r", " ")
    feats = [bool(f & 1), bool(f & 2), bool(f & 4), bool(f & 8)]
    if not any(feats):
        feats[0] = True
    return {"line": line, "salt": salt, "features": feats, "undo": bool(f & 16), "gen": "fuzz"}


def target_main(argv):
    out_path = argv[1]
    sys.path.insert(0, os.path.join(os.path.dirname(os.path.dirname(os.path.dirname(os.path.abspath(__file__)))), ".deps"))
    import atheris

    from vf import core

    with atheris.instrument_imports(include=["netconan"]):
        core.import_netconan()
        import netconan.anonymize_files  # noqa
        import netconan.ip_anonymization  # noqa
        import netconan.sensitive_item_removal  # noqa
    from vf.props import c14

    ev = core.Ev()
    found = {}
    state = {"n": 0}

    def flush():
        with open(out_path + ".tmp", "w") as fh:
            json.dump({"evaluations": ev.evaluations, "nontrivial": ev.distinct_nontrivial, "classes": dict(ev.classes), "found": found, "samples": [core.jsonable(c) for c in ev.samples()[:4]]}, fh)
        os.replace(out_path + ".tmp", out_path)

    def one(data):
        case = decode(data)
        core.reset_globals()
        f = c14.check_line(case, ev)
        state["n"] += 1
        if f is not None and f.key not in found:
            found[f.key] = {"detail": f.detail, "case": case}
            flush()
        elif state["n"] % 2000 == 0:
            flush()

    atheris.Setup([argv[0]] + argv[2:], one)
    atheris.Fuzz()


def t_fuzz(shard, nshards, seed, ev, known, runs=100000):
    from .. import core
    from ..core import Finding
    from ..gen import secrets as S
    from ..props import c14

    deps = os.path.join(core.VERIF, ".deps")
    probe = subprocess.run([sys.executable, "-c", "import sys; sys.path.insert(0, %r); import atheris" % deps], capture_output=True)
    if probe.returncode != 0:
        ev.notes["atheris"] = "not installed (run tools/setup.sh); fuzz supplement skipped"
        return []
    d = os.path.join(core.VERIF, ".fuzz", "c14-%d-%d" % (os.getpid(), shard))
    shutil.rmtree(d, ignore_errors=True)
    os.makedirs(os.path.join(d, "corpus"))
    try:
        k = 0
        samples = {"text": "RemoveMe", "numeric": "12345", "hex": "abcdef12", "type7": "122A00190102180D3C2E", "md5": "$1$wtHI$0rN7R8PKwC30AsCGA77vy.", "sha512": "$6$" + "a" * 16 + "$" + "b" * 86, "j9": "$9$Be4EhyVb2GDkevYo"}
        if shard % 2 == 0:  # half of the workers start from an empty corpus
            for form in S.FORMS:
                for hi, _ in enumerate(form.heads):
                    vals = [samples[form.classes[(hi + j) % len(form.classes)]] for j in range(form.slots)]
                    if "exact" in form.text_kw:
                        vals = ["cRr9m5bWF4D1P7EsGw53WWzWMO_xcvnY", "Zq9m5bWF4D1P7EsGw53WWzWMO_xcvnYk"][: form.slots]
                    line, _ = S.render(form, hi, hi, vals)
                    with open(os.path.join(d, "corpus", "s%04d" % k), "wb") as fh:
                        fh.write(bytes([1 + (k % 15), k % len(SALTS)]) + line.encode("utf-8"))
                    k += 1
            for p in c14.POISON:
                with open(os.path.join(d, "corpus", "p%04d" % k), "wb") as fh:
                    fh.write(bytes([15, k % len(SALTS)]) + ("set password " + p).encode("utf-8", "replace"))
                k += 1
        with open(os.path.join(d, "dict"), "w") as fh:
            for w in S.KEYWORDS + ["$9$", "$1$", "$6$", "fe80:", "::", "\\\\", "[[", "]]", ";;", "255.255.255.0"]:
                fh.write('"%s"\n' % w.replace("\\", "\\\\").replace('"', '\\"'))
        out = os.path.join(d, "stats.json")
        env = dict(os.environ, VERIF_REPO=core.REPO, PYTHONDONTWRITEBYTECODE="1", PYTHONHASHSEED="0")
        cmd = [sys.executable, "-m", "vf.fuzz.c14_fuzz", "--target", out, "-runs=%d" % runs, "-seed=%d" % (seed % 2000000000 + 1), "-dict=" + os.path.join(d, "dict"), "-max_len=600", "-artifact_prefix=" + d + "/", os.path.join(d, "corpus")]
        p = subprocess.run(cmd, cwd=core.VERIF, env=env, capture_output=True, text=True, timeout=7200)
        if not os.path.exists(out):
            raise core.HarnessError("atheris target produced no statistics: rc=%s\n%s" % (p.returncode, (p.stderr or "")[-1500:]))
        st = json.load(open(out))
    finally:
        shutil.rmtree(d, ignore_errors=True)
    ev.bulk(st["evaluations"], st["nontrivial"], sample=(st["samples"] or [None])[0], classes=st["classes"])
    ev.notes["atheris_seed_corpus"] = "forms+poison" if shard % 2 == 0 else "empty"
    fs = []
    for key, info in st["found"].items():
        if key in known:
            ev.excluded_known[key] += 1
        else:
            fs.append(Finding(key, info["detail"], info["case"], check="fuzz"))
    return fs


if __name__ == "__main__":
    if len(sys.argv) > 2 and sys.argv[1] == "--target":
        target_main([sys.argv[0]] + sys.argv[2:])
