"""Verification machinery for netconan: property-based testing and fuzzing (see ../DESIGN.md)."""
