import io, logging, itertools
logging.disable(logging.CRITICAL)
from netconan.anonymize_files import FileAnonymizer
text="""interface Gi0/0
 ip address 10.1.2.3 255.255.255.0
 ipv6 address 2001:db8::1/64
username seattle-admin password 7 122A00190102180D3C2E
snmp-server community seaSecret ro 65001
router bgp 65001
 neighbor 11.12.13.14 remote-as 65002 description sea-lax 65001
enable secret 5 $1$wtHI$0rN7R8PKwC30AsCGA77vy.
tacacs-server host 1.2.3.4 key pwd65001
set system x secret "$9$Be4EhyVb2GDkevYo"; 65002
"""
def run(fa,t):
    o=io.StringIO(); fa.anonymize_io(io.StringIO(t),o); return o.getvalue()
opts=dict(salt='Tsalt',preserve_suffix_v4=8,preserve_suffix_v6=8)
bad=0
for pwd,ip,w,n in itertools.product([0,1],repeat=4):
    kw=dict(opts)
    multi=FileAnonymizer(bool(pwd),bool(ip),sensitive_words=['sea','lax'] if w else None, as_numbers=['65001','65002'] if n else None,**kw)
    m=run(multi,text)
    t=text
    if pwd: t=run(FileAnonymizer(True,False,**kw),t)
    if ip: t=run(FileAnonymizer(False,True,**kw),t)
    if w: t=run(FileAnonymizer(False,False,sensitive_words=['sea','lax'],**kw),t)
    if n: t=run(FileAnonymizer(False,False,as_numbers=['65001','65002'],**kw),t)
    if m!=t: bad+=1; print((pwd,ip,w,n)); print(m); print(t)
print('bad',bad)
