import os, shutil, tempfile, logging, io, random
logging.disable(logging.CRITICAL)
from netconan.anonymize_files import anonymize_files, FileAnonymizer
from netconan.netconan import main
r=random.Random(2)
def mk(d,tree):
    for p,b in tree.items():
        os.makedirs(os.path.dirname(os.path.join(d,p)),exist_ok=True)
        open(os.path.join(d,p),'wb').write(b)
def snap(d):
    out={}
    for root,ds,fs in os.walk(d):
        for f in fs:
            p=os.path.join(root,f); out[os.path.relpath(p,d)]=open(p,'rb').read()
    return out
lines=[b"password foo%d\n",b"ip address 11.2.3.%d\n",b"router bgp 65001\n",b"hostname seattle%d\r\n",b"snmp-server community c%d ro\n",b"no final newline %d"]
bad=0
for it in range(60):
    d=tempfile.mkdtemp(dir=None)
    tree={}
    for i in range(r.randrange(1,7)):
        sub=r.choice(['','a/','a/b c/','é/','.h/','a/.x/'])
        name=r.choice(['f%d.cfg'%i,'.hidden%d'%i,'sp ace%d'%i,'ü%d.txt'%i])
        tree[sub+name]=b''.join((l%r.randrange(5) if b'%d' in l else l) for l in [r.choice(lines) for _ in range(r.randrange(0,6))])
    if not any(not os.path.basename(p).startswith('.') for p in tree): tree['x.cfg']=b'password q\n'
    mk(d+'/in',tree); before=snap(d+'/in')
    kw=dict(salt='Tq',sensitive_words=['seattle'],as_numbers=['65001'])
    anonymize_files(d+'/in',d+'/o1',True,True,**kw)
    main(['-i',d+'/in','-o',d+'/o2','-p','-a','-s','Tq','-w','seattle','-n','65001','--preserve-host-bits','0'])
    o1,o2=snap(d+'/o1'),snap(d+'/o2')
    exp={p for p in tree if not os.path.basename(p).startswith('.')}
    ok = set(o1)==exp and snap(d+'/in')==before
    # in-memory in walk order
    fa=FileAnonymizer(True,True,**kw); o3={}
    for root,ds,fs in os.walk(d+'/in'):
        for f in fs:
            if f.startswith('.'): continue
            p=os.path.join(root,f); s=io.StringIO(); fa.anonymize_io(io.StringIO(open(p,'r').read()),s)
            o3[os.path.relpath(p,d+'/in')]=s.getvalue()
    o1t={p:open(os.path.join(d+'/o1',p),'r').read() for p in o1}
    ok = ok and o3==o1t
    # main uses host bits default 8 unless given; we passed 0 => library default None=0
    ok = ok and o1==o2
    if not ok: bad+=1; print(tree.keys(), set(o1)^exp, o1==o2, o3==o1t)
    shutil.rmtree(d)
print('bad',bad)
