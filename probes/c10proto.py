import re, logging, random, string
from hypothesis import given, settings, strategies as st, seed, HealthCheck
logging.disable(logging.CRITICAL)
from netconan.sensitive_item_removal import SensitiveWordAnonymizer, AsNumberAnonymizer, anonymize_as_numbers
from netconan.default_reserved_words import default_reserved_words as RW
edge=st.sampled_from("ghijklmnopqrstuvwxyzGHIJKLMNOPQRSTUVWXYZ")
inner=st.text(alphabet="abcxyzABQ019-_", max_size=5).filter(lambda s: not re.search(r'[0-9a-fA-F]{6}',s))
word=st.builds(lambda a,m,b:a+m+b, edge, inner, edge)
words=st.lists(word,min_size=1,max_size=5,unique_by=str.lower)
def overlapping(ws):
    l=[w.lower() for w in ws]
    return any(a!=b and (a in b) for a in l for b in l) or any(a!=b and any(a.endswith(b[:k]) for k in range(1,len(b))) for a in l for b in l)
filler=st.text(alphabet="abz019.-_/ :\t", max_size=6)
@st.composite
def case(draw):
    ws=draw(words)
    segs=[]
    for _ in range(draw(st.integers(1,6))):
        segs.append(draw(filler))
        w=draw(st.sampled_from(ws)); mode=draw(st.integers(0,3))
        segs.append([w,w.lower(),w.upper(),w.swapcase()][mode])
    segs.append(draw(filler))
    return ws,''.join(segs),draw(st.text(max_size=4))
stats={'n':0,'ov':0,'viol':0}
@seed(1)
@settings(max_examples=3000,deadline=None,database=None,suppress_health_check=list(HealthCheck))
@given(case())
def t(c):
    ws,line,salt=c
    a=SensitiveWordAnonymizer(ws,salt,RW)
    out=a.anonymize(line)
    stats['n']+=1
    low=out.lower()
    toks=out.split()
    # survivors must lie inside tokens that are reserved words
    for w in ws:
        for m in re.finditer(re.escape(w.lower()),low):
            # find token containing m
            ok=False
            for tm in re.finditer(r'\S+',out):
                if tm.start()<=m.start() and m.end()<=tm.end() and tm.group(0).lower() in {x.lower() for x in RW}: ok=True
            assert ok,(ws,line,out,w)
    if overlapping(ws): stats['ov']+=1
t()
print(stats)
