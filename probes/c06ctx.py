import itertools, collections, sys, logging
from c06proto import *
a4=IpAnonymizer('s'); a6=IpV6Anonymizer('s'); r4=IpAnonymizer('s'); r6=IpV6Anonymizer('s')
alpha="01259afg.:/_- "
cores=["1.2.3.4","255.255.255.255","256.1.1.1","1.2.3.256","25.25.25.25","001.002.003.004","1.2.3","1.2.3.4.5","10.0.0.0","0.0.0.0","1.2.3.4/24","12.13.14.15/32",
 "1.2.3.0333","1.2.0333.4","009.010.011.012","1.2.3.0000014","192.168.1.1","255.255.0.0","0.0.0.255","255.0.255.0",
 "::","::1","1::","1::1","1:2:3:4:5:6:7:8","1:2:3:4:5:6:7","1:2:3:4:5:6:7:8:9","1:2:3:4:5:6:7::","::2:3:4:5:6:7:8","1::3:4:5:6:7:8","1:2::8","1::2::3","12345::1","g::1","FFFF::AbCd","01:23:45:67:89:ab","fe80::1","2001:db8::/32","2001:db8::1/64","1:2:3:4:5:6::8","1:2:3:4:5::7:8",
 "::1.2.3.4","::ffff:1.2.3.4","::ffff:0:1.2.3.4","1::1.2.3.4","1:2:3:4:5:6:1.2.3.4","::1.2.3.256","::1.2.3","1:2:3:4::1.2.3.4","1:2:3:4:5::1.2.3.4","::01.2.3.4",
 "1.2.3.4:80","1.2.3.4:5.6.7.8","1.2.3.4::","fe80:%x"]
n=int(sys.argv[1])
ctx=['']+[''.join(t) for k in range(1,n+1) for t in itertools.product(alpha,repeat=k)]
dis=collections.Counter(); ex={}; tot=0; skipped=0
for core in cores:
  for l in ctx:
    for r in ctx:
        line=l+core+r; tot+=1
        e,c=expected(line,r4,r6)
        if e is None: skipped+=1; continue
        try: a=actual(line,a4,a6)
        except Exception as E: a='EXC '+type(E).__name__
        if a!=e:
            key=(core,)+tuple(sorted(set(c)))
            dis[key]+=1; ex.setdefault(key,[]).append((line,e,a))
print(tot,'skipped',skipped,'disagree',sum(dis.values()))
for k,v in sorted(dis.items()):
    print(k,v)
    for x in ex[k][:3]: print('    ',x)
