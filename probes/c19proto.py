import os, shutil, tempfile, logging, io, contextlib, random
from netconan.netconan import main
logging.disable(logging.CRITICAL)
TEXT="interface x\n ip address 11.12.13.14 255.255.255.0\n ip address 10.1.2.3 secretword\n ipv6 2001:db8::1\nrouter bgp 65001\npassword foo reservedw\npassword reservedw\n"
def run(argv,cfg=None):
    d=tempfile.mkdtemp(dir=None); os.mkdir(d+'/in'); open(d+'/in/a.cfg','w').write(TEXT)
    full=['-i',d+'/in','-o',d+'/out']+argv
    if cfg is not None:
        open(d+'/c.cfg','w').write(cfg); full+=['-c',d+'/c.cfg']
    err=io.StringIO()
    try:
        with contextlib.redirect_stderr(err): main(full)
        res=open(d+'/out/a.cfg').read() if os.path.exists(d+'/out/a.cfg') else None
        if os.path.exists(d+'/map'): res=(res,open(d+'/map').read())
    except SystemExit as e: res=('SystemExit',e.code, err.getvalue()[-120:])
    except Exception as e: res=(type(e).__name__,str(e))
    shutil.rmtree(d); return res
opts={'salt':'abc','sensitive-words':'secretword,ipv6x','as-numbers':'65001,12','reserved-words':'reservedw','preserve-prefixes':'11.0.0.0/8,12.0.0.0/8','preserve-addresses':'10.1.0.0/16','preserve-host-bits':'4','log-level':'ERROR'}
flags=['anonymize-ips','anonymize-passwords','preserve-private-addresses']
base=run(sum([['--'+k,v] for k,v in opts.items()],[])+['--'+f for f in flags])
print(base)
for style in ('eq','colon','space','flagtrue'):
    lines=[]
    for k,v in opts.items():
        lines.append({'eq':f'{k}={v}','colon':f'{k}: {v}','space':f'{k} {v}','flagtrue':f'{k} = {v}'}[style])
    for f in flags: lines.append(f if style!='flagtrue' else f+'=true')
    r=run([],'\n'.join(lines)+'\n')
    print(style, r==base, r if r!=base else '')
# split + conflict
r=run(['--salt','abc','--preserve-host-bits','4','-a'],"salt=zzz\npreserve-host-bits=9\nsensitive-words=secretword,ipv6x\nas-numbers=65001,12\nreserved-words=reservedw\npreserve-prefixes=11.0.0.0/8,12.0.0.0/8\npreserve-addresses=10.1.0.0/16\nanonymize-passwords\npreserve-private-addresses\nlog-level=ERROR\n")
print('conflict',r==base)
# private eq
a=run(['-a','-s','x','--preserve-private-addresses']); b=run(['-a','-s','x','--preserve-addresses','10.0.0.0/8,172.16.0.0/12,192.168.0.0/16'])
print('private',a==b)
a=run(['-a','-s','x']); b=run(['-a','-s','x','--preserve-host-bits','8','--preserve-prefixes','0.0.0.0/1,128.0.0.0/2,192.0.0.0/3,224.0.0.0/4,10.0.0.0/8,172.16.0.0/12,192.168.0.0/16'])
print('defaults',a==b)
print(run(['-s','x']), run(['-a','-u','-s','x']), run(['-u']), run(['-p','-d','/tmp/scratch/m']), run(['-a','--preserve-host-bits','33']))
print(run([], "anonymize-ips=false\nanonymize-passwords\nsalt=x\n"))
print(run([], "sensitive-words=[a,b]\nsalt=x\n"))
print(run(['-w','-x,y','-s','x']))
