import sys, io
sys.path.insert(0,'/verif/.deps')
import atheris
with atheris.instrument_imports(include=['netconan']):
    from netconan.anonymize_files import FileAnonymizer
import logging; logging.disable(logging.CRITICAL)
fa=FileAnonymizer(True,True,salt='Tsalt',sensitive_words=['foo'],as_numbers=['123'])
def one(data):
    try: s=data.decode('utf-8')
    except UnicodeDecodeError: return
    fa.pwd_lookup.clear()
    o=io.StringIO()
    fa.anonymize_io(io.StringIO(s),o)
atheris.Setup(sys.argv, one)
atheris.Fuzz()
