import re, logging, collections
exec(open(__import__('os').path.join(__import__('os').path.dirname(__file__),'c07_forms_proto.py')).read().split("res=collections.OrderedDict()")[0])
SCR=_LINE_SCRUBBED_MESSAGE
kinds=collections.Counter(); odd=[]
for name,heads,trails in F:
    for h in heads:
        for t in trails:
            for c,vals in C.items():
                if c=='digit1': continue
                s=vals[0]; line=h.format(s)+t
                pre,post=h.split('{}')[0], h.split('{}')[1]+t
                try: o=replace_matching_item(rx,line,{}, 'Tsalt')
                except Exception as e: o='EXC'
                if o==line: k='unchanged'
                elif SCR in o: k='scrub@%d'%o.index(SCR)
                elif o.startswith(pre) and o.endswith(post) and s not in o[len(pre):len(o)-len(post)]: k='positional'
                else: k='other'
                kinds[(name,k)]+=1
                if k in('other',) or (k=='unchanged'): odd.append((name,c,line,o))
for k,v in sorted(kinds.items()): print(k,v)
print()
for x in odd: 
    if x[1] in ('text','hex','type7','md5','j9'): print(x)
