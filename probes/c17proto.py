import io, logging, random, ipaddress, os, tempfile, shutil
logging.disable(logging.CRITICAL)
from netconan.anonymize_files import anonymize_files
from netconan.ip_anonymization import IpAnonymizer, IpV6Anonymizer
r=random.Random(5); bad=0
for it in range(200):
    d=tempfile.mkdtemp(dir=None); os.mkdir(d+'/in')
    B=r.choice([0,1,8,31,32,r.randrange(33)])
    pa=r.choice([None,['11.11.0.0/16','9.9.9.9'],['1.2.3.4']])
    pp=r.choice([None,[],['12.0.0.0/8','12.1.0.0/16']])
    addrs4=[r.getrandbits(32) for _ in range(6)]+[int(ipaddress.ip_address('9.9.9.9')),int(ipaddress.ip_address('1.2.3.5')),0xffffff00]
    addrs6=[r.getrandbits(128) for _ in range(4)]
    for f in range(2):
        with open(f'{d}/in/f{f}.txt','w') as fh:
            for a in addrs4: fh.write('x %s y\n'%ipaddress.IPv4Address(a))
            for a in addrs6: fh.write('x %s y\n'%ipaddress.IPv6Address(a))
    salt=str(r.random())
    anonymize_files(d+'/in',d+'/out',False,True,salt=salt,dumpfile=d+'/map',preserve_prefixes=None if pp is None else list(pp),preserve_networks=None if pa is None else list(pa),preserve_suffix_v4=B,preserve_suffix_v6=B)
    pairs=[l.rstrip('\n').split('\t') for l in open(d+'/map')]
    L=[p[0] for p in pairs]; R=[p[1] for p in pairs]
    f4=IpAnonymizer(salt,None if pp is None else list(pp),None if pa is None else list(pa),preserve_suffix=B); f6=IpV6Anonymizer(salt,preserve_suffix=B)
    ok=len(set(L))==len(L) and len(set(R))==len(R)
    for o,a in pairs:
        ip=ipaddress.ip_address(o)
        img=(f4 if ip.version==4 else f6).anonymize(int(ip))
        if str(ipaddress.ip_address(a))!=str(type(ip)(img)): ok=False
    # observed
    m=dict(pairs)
    for f in range(2):
        for li,lo in zip(open(f'{d}/in/f{f}.txt'),open(f'{d}/out/f{f}.txt')):
            ti,to=li.split()[1],lo.split()[1]
            if ti!=to and m.get(ti)!=to: ok=False; print('missing',ti,to,B,pa,pp)
    if not ok: bad+=1
    shutil.rmtree(d)
print('bad',bad)
