import re, logging
from hypothesis import given, settings, strategies as st, seed, HealthCheck
logging.disable(logging.CRITICAL)
from netconan.sensitive_item_removal import AsNumberAnonymizer, anonymize_as_numbers
BOUND=[0,1,64510,64511,64512,64513,65534,65535,65536,65537,4199999998,4199999999,4200000000,4200000001,4294967294,4294967295,65,650,65001,6500]
BL=[(0,64511),(64512,65535),(65536,4199999999),(4200000000,4294967295)]
def block(n):
    for i,(a,b) in enumerate(BL):
        if a<=n<=b: return i
asn=st.one_of(st.sampled_from(BOUND), st.integers(0,4294967295))
delim=st.text(alphabet=" .,;:-_/()[]abcxyz\té", min_size=0, max_size=3)
@st.composite
def case(draw):
    nums=[str(n) for n in draw(st.lists(asn,min_size=1,max_size=5,unique=True))]
    segs=[]
    for _ in range(draw(st.integers(1,6))):
        segs.append(draw(delim))
        k=draw(st.integers(0,4)); n=draw(st.sampled_from(nums))
        segs.append([n, n, draw(st.text('0123456789',min_size=1,max_size=2))+n, n+draw(st.text('0123456789',min_size=1,max_size=2)), '0'+n][k])
    segs.append(draw(delim))
    return nums,''.join(segs),draw(st.text(max_size=5))
stats={'n':0,'repl':0}
def scan(line):
    out=[];i=0
    while i<len(line):
        if line[i] in '0123456789':
            j=i
            while j<len(line) and line[j] in '0123456789': j+=1
            out.append((True,line[i:j])); i=j
        else:
            j=i
            while j<len(line) and line[j] not in '0123456789': j+=1
            out.append((False,line[i:j])); i=j
    return out
@seed(3)
@settings(max_examples=5000,deadline=None,database=None,suppress_health_check=list(HealthCheck))
@given(case())
def t(c):
    nums,line,salt=c
    a=AsNumberAnonymizer(list(nums),salt)
    out=anonymize_as_numbers(a,line)
    si,so=scan(line),scan(out)
    assert len(si)==len(so),(line,out)
    m={}
    for (di,ti),(do,to) in zip(si,so):
        assert di==do
        if di and ti in nums:
            stats['repl']+=1
            assert to.isdigit() and block(int(to))==block(int(ti)),(ti,to)
            assert m.setdefault(ti,to)==to
            assert AsNumberAnonymizer([ti],salt).anonymize(ti)==to
        else:
            assert ti==to,(line,out,ti,to)
    stats['n']+=1
t(); print(stats)
