import logging, io
from netconan.anonymize_files import FileAnonymizer
fa=FileAnonymizer(True,True,salt='Tsalt',sensitive_words=['foo'],as_numbers=['123'])
def run(l):
    o=io.StringIO()
    try:
        fa.anonymize_io(io.StringIO(l),o); return repr(o.getvalue()[:100])
    except BaseException as e: return 'EXC %s: %s'%(type(e).__name__,str(e)[:80])
for l in [r"snmp-server user dom\user grp v3 auth md5 pw", r"snmp-server user dom\1 grp v3 auth md5 pw", r"snmp-server user d\g<9> grp v3 auth md5 pw", "password "+"["*1200, ";"*3000, '"'*2000+"\n", "fe80:%x", "secret $1$123456789$abc", "x"*100000, ("a "*20000)+"md5 1 key", "( "*5000, "\x00\x01 password \x00", "password  x", "pass\x0cword", "key \\", "password \\"]:
    print(repr(l[:60]), '=>', run(l))
