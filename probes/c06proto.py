import ipaddress, itertools, sys, collections, logging
logging.disable(logging.CRITICAL)
from netconan.ip_anonymization import IpAnonymizer, IpV6Anonymizer, anonymize_ip_addr
SUPER=set("abcdefghijklmnopqrstuvwxyzABCDEFGHIJKLMNOPQRSTUVWXYZ0123456789.:")
AL4=SUPER-{':'}; AL6=SUPER-{'.'}
def runs(s, alpha):
    out=[];i=0
    while i<len(s):
        if s[i] in alpha:
            j=i
            while j<len(s) and s[j] in alpha: j+=1
            out.append((i,j)); i=j
        else: i+=1
    return out
def v4(tok):
    p=tok.split('.')
    if len(p)!=4: return None
    if not all(x and x.isascii() and x.isdigit() for x in p): return None
    v=[int(x) for x in p]
    if any(x>255 for x in v): return None
    return (v[0]<<24)|(v[1]<<16)|(v[2]<<8)|v[3]
def v6(tok):
    if ':' not in tok: return None
    try: return int(ipaddress.IPv6Address(tok))
    except ValueError: return None
def is_mask(n):
    b=format(n,'032b'); import re
    return re.fullmatch('1*0*|0*1*',b) is not None
def expected(line, a4, a6):
    """returns (expected_text or None if unspecified, classes)"""
    out=[];pos=0;classes=[]
    for (i,j) in runs(line,SUPER):
        out.append(line[pos:i]); tok=line[i:j]; pos=j
        if ':' not in tok:
            n=v4(tok)
            if n is None: out.append(tok); classes.append('plain')
            elif is_mask(n): out.append(tok); classes.append('mask')
            else: out.append(str(ipaddress.IPv4Address(a4.anonymize(n)))); classes.append('v4')
        elif '.' not in tok:
            n=v6(tok)
            if n is None: out.append(tok); classes.append('plain6')
            else: out.append(str(ipaddress.IPv6Address(a6.anonymize(n)))); classes.append('v6')
        else:
            n=v6(tok)
            if n is not None:
                out.append(str(ipaddress.IPv6Address(a6.anonymize(n)))); classes.append('v6v4tail')
                continue
            sub6=[tok[a:b] for a,b in runs(tok,AL6)]; ok6=[t for t in sub6 if v6(t) is not None]
            sub4=[(a,b) for a,b in runs(tok,AL4)]; ok4=[(a,b) for a,b in sub4 if v4(tok[a:b]) is not None]
            if ok6: return None, ['mixed_ambiguous']
            if not ok4: out.append(tok); classes.append('mixed_plain'); continue
            p=0; s=[]
            for a,b in sub4:
                s.append(tok[p:a]); t=tok[a:b]; p=b; n4=v4(t)
                if n4 is None or is_mask(n4): s.append(t)
                else: s.append(str(ipaddress.IPv4Address(a4.anonymize(n4))))
            s.append(tok[p:]); out.append(''.join(s)); classes.append('mixed_v4')
    out.append(line[pos:])
    return ''.join(out), classes
def actual(line,a4,a6):
    return anonymize_ip_addr(a4, anonymize_ip_addr(a6,line))
if __name__=='__main__':
    a4=IpAnonymizer('s'); a6=IpV6Anonymizer('s'); r4=IpAnonymizer('s'); r6=IpV6Anonymizer('s')
    atoms=['1','25','255','256','00','a','g','.',':','::','/',' ']
    n=int(sys.argv[1]); dis=collections.Counter(); ex={}; tot=0; cls=collections.Counter()
    for k in range(1,n+1):
        for t in itertools.product(atoms,repeat=k):
            line=''.join(t); tot+=1
            e,c=expected(line,r4,r6)
            for x in c: cls[x]+=1
            if e is None: continue
            try: a=actual(line,a4,a6)
            except Exception as E: a='EXC '+type(E).__name__
            if a!=e:
                key=tuple(sorted(set(c)))
                dis[key]+=1; ex.setdefault(key,[]).append((line,e,a))
    print(tot, cls)
    for k,v in dis.items():
        print(k,v)
        for x in ex[k][:6]: print('    ',x)
