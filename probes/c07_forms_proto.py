import re, itertools, logging, collections
from netconan.sensitive_item_removal import *
from netconan.sensitive_item_removal import _LINE_SCRUBBED_MESSAGE
from netconan.default_reserved_words import default_reserved_words as RW
logging.disable(logging.CRITICAL)
rx=generate_default_sensitive_item_regexes()
# forms: (name, [alternatives of head strings], trailing contexts)
F=[
 ('set-password',['set password {}','set password ENC {}','set pksecret {}','set pksecret ENC {}'],['']),
 ('password',['password {}','passwd {}','password 7 {}','password 0 {}','enable password level 12 {}','enable password level 3 5 {}','enable password 7 {}'],['']),
 ('username',['username Someone password {}','username Someone password 0 {}','username Someone view Someview password 7 {}','username Someone secret {}','username Someone secret 5 {}','username noc secret sha512 {}','username Someone privilege 15 secret 5 {}'],['']),
 ('secret',['enable secret {}','enable secret 5 {}','secret {}','secret 0 {}'],['']),
 ('ip-ftp',['ip ftp password {}','ip ftp password 7 {}'],['']),
 ('ospf-auth-key',[' ip ospf authentication-key {}',' ip ospf authentication-key 0 {}'],['']),
 ('ospf-md-key',[' ip ospf message-digest-key 1 md5 {}',' ip ospf message-digest-key 124 md5 7 {}'],['']),
 ('auth-text',['   vrrp 2 authentication text {}','  authentication text {}'],['']),
 ('isis-password',['isis password {}'],['',' level-1',' level-2']),
 ('domain-password',['domain-password {}','area-password {}'],['',' authenticate snp validate',' authenticate snp send-only']),
 ('standby',['standby authentication {}','standby 1 authentication {}','standby authentication text {}','standby 12 authentication md5 key-string {}','standby authentication md5 key-string 7 {}'],['',' timeout 123']),
 ('l2tp',['l2tp tunnel password {}','l2tp tunnel password 0 {}','l2tp tunnel Foo password 7 {}'],['']),
 ('digest',['digest secret {}','digest secret 0 {}'],['',' hash MD5']),
 ('ppp-hostname',['ppp chap hostname {}','ppp pap sent-username x hostname {}'],['']),
 ('ppp-password',['ppp chap password {}','ppp chap password 0 {}','ppp chap password 7 {}'],['']),
 ('psk-addr',['pre-shared-key address 10.0.0.1 key {}','pre-shared-key address 10.0.0.1 key 6 {}','pre-shared-key address ipv6 ::1/128 key 6 {}','pre-shared-key hostname example.com key 6 {}'],['']),
 ('ikev2-auth',['ikev2 local-authentication pre-shared-key {}','remote-authentication pre-shared-key {}','ikev2 remote-authentication pre-shared-key {}'],['']),
 ('psk',['pre-shared-key {}','pre-shared-key 0 {}','pre-shared-key local 0 {}','pre-shared-key remote hex {}','pre-shared-key remote 6 {}','pre-shared-key ascii-text {}','pre-shared-key hexadecimal {}'],['']),
 ('tacacs-key',['tacacs-server host 1.1.1.1 key {}','radius-server host 1.1.1.1 key 0 {}','tacacs-server key 7 {}','radius-server key {}'],['']),
 ('key',[' key {}',' key 0 {}',' key 7 {}','key hexadecimal {}'],['']),
 ('ntp',['ntp authentication-key 4294967295 md5 {}','ntp authentication-key 1 md5 {}'],['',' 1',' 7']),
 ('syscon',['syscon password {}','syscon address 1.1.1.1 {}'],['']),
 ('snmp-user-auth',['snmp-server user Someone Somegroup remote Crap v3 auth md5 {}','snmp-server user Someone Somegroup v3 auth sha {}','snmp-server user Someone Somegroup v3 encrypted auth sha {}'],['']),
 ('snmp-user-priv',['snmp-server user Someone Somegroup v3 auth sha AuthPw99x priv {}','snmp-server user Someone Somegroup auth md5 AuthPw99x priv 3des {}','snmp-server user Someone Somegroup auth md5 AuthPw99x priv aes 128 {}','snmp-server user Someone Somegroup auth md5 AuthPw99x priv des {}'],['',' something']),
 ('isakmp',['crypto isakmp key {}','crypto isakmp key 6 {}','isakmp key {}'],[' address 1.1.1.1 255.255.255.0',' hostname Something','']),
 ('session-key-ah',['set session-key inbound ah 4294967295 {}','set session-key outbound ah 256 {}'],['']),
 ('session-key-esp',['set session-key outbound esp 256 authenticator {}','set session-key inbound esp 256 cipher {}','set session-key outbound esp 256 cipher 1234abcd authenticator {}'],['']),
 ('auth-key-junos',['authentication-key {}','hello-authentication-key {}','authentication-key "{}"'],['',';']),
 ('snmp-community',['snmp-server community {}','snmp-server community 0 {}','snmp-server community 8 {}','snmp-server vrf x community {}'],['',' ro 1',' RW 2',' Something']),
 ('snmp-host',['snmp-server host 1.1.1.1 {}','snmp-server host 1.1.1.1 vrf Something informs {}','snmp-server host 1.1.1.1 informs version 1 {}','snmp-server host 1.1.1.1 traps version 2c {}','snmp-server host 1.1.1.1 informs version 3 auth {}','snmp-server host 1.1.1.1 traps version 3 noauth {}','snmp-server host 1.1.1.1 informs version 3 priv {}','snmp-server host 1.1.1.1 version 2c {}'],['',' config',' ipsec',' vrrp',' memory']),
 ('junos-snmp',['set snmp community {}','set snmp trap-group {}','snmp community {}'],['',' authorization read-only',' otherstuff']),
 ('encrypted-password',['set system root-authentication encrypted-password "{}"','set system login user admin authentication encrypted-password "{}"','encrypted-password {}'],['',';']),
 ('key-quoted',['set system license keys key "{}"'],['']),
 ('key-hash',['key-hash sha256 {}'],['']),
 ('set-community',['set community {}'],['',' trailing text']),
 ('community-map',['snmp-server mib community-map {}:100 context public1','snmp-server mib community-map {}'],['']),
 ('snmp-community-extra',['rf-switch snmp-community {}'],['']),
 ('catchall-9',['set foo bar "{}"','foo {}'],['',';']),
 ('catchall-1',['my hash is {}','set system login user someone authenitcation "{}"'],['']),
 ('aws-xml',['<pre_shared_key>{}</pre_shared_key>'],['']),
 ('aws-json',['"PreSharedKey": "{}",'],['']),
 ('cable-shared-secret',['cable shared-secret {}','cable shared-secret 7 {}'],['']),
 ('wpa-psk',['wpa-psk ascii {}','wpa-psk ascii 7 {}','wpa-psk hex 0 {}'],['']),
 ('ldap',['ldap-login-password {}'],['']),
 ('ikev1-psk',['ikev1 pre-shared-key {}','failover key {}','failover key hexadecimal {}'],['']),
 ('vpdn',['vpdn username someone password {}','vpdn username someone password 7 {}'],['']),
 ('key-string',['key-string {}','key-string 7 {}'],['']),
 ('md-key-enc',['message-digest-key 1 md5 7 {}','message-digest-key 1 md5 encrypted {}','area 0 virtual-link 1.1.1.1 message-digest-key 1 md5 7 {}'],['']),
 ('neighbor-password',['neighbor 1.2.3.4 password {}','neighbor 1.2.3.4 password 7 {}',' neighbor PEERS password 7 {}'],['']),
 ('wlccp',['wlccp ap username someone password 7 {}','wlccp ap username someone password {}'],['']),
 ('junos-md5-key',['set protocols foo md5 1 key {}','md5 1 key {}'],['',';']),
 ('junos-secret',['set system radius-server 1.2.3.4 secret {}','simple-password {}','set access profile x simple-password "{}"'],['',';']),
 ('junos-ssh',['set system login user x authentication ssh-rsa "{}"','ssh-dsa "{}"'],['',';']),
 ('junos-psk',['set security ike policy p pre-shared-key ascii-text "{}"','pre-shared-key hexadecimal {}'],['',';']),
]
C={
 'text':['RemoveMe','Zq_xy-w!','Hx9Gk2Lm'],
 'text32':['cRr9m5bWF4D1P7EsGw53WWzWMO_xcvnY','OzWcYvwcG19WW5bMr5mEn3DF7sRWPx_4'],
 'numeric':['12345','987654321'],
 'digit1':['3','9'],
 'hex':['abcdef12','DEADBEEFa'],
 'type7':['122A00190102180D3C2E','094F4107180B'],
 'md5':['$1$wtHI$0rN7R8PKwC30AsCGA77vy.','$1$abcd$0rN7R8PKwC30AsCGA77vy/'],
 'j9':['$9$Be4EhyVb2GDkevYo','$9$-pV24JGDkmf'],
}
res=collections.OrderedDict()
for name,heads,trails in F:
    for h in heads:
        for t in trails:
            for c,vals in C.items():
                outs=[]
                for s in vals[:2]:
                    line=h.format(s)+t
                    try: o=replace_matching_item(rx,line,{}, 'Tsalt')
                    except Exception as e: o='EXC %r'%e
                    outs.append((s,line,o))
                surv=[s for s,l,o in outs if s in o]
                dif=outs[0][2]!=outs[1][2]
                if surv or dif:
                    res.setdefault((name,c),[]).append((h,t,outs[0][2]))
for k,v in res.items():
    print(k, len(v)); 
    for h,t,o in v[:3]: print('     ',repr(h+t),'=>',repr(o[:90]))
